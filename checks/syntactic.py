"""Obligations decided on the AST alone (DESIGN 2.4: call-shape, frame).

call-shape: for every dispatch chain
    flow(Nothing, *map(compose(lambda f: (lambda _: f(ARGS)), lash), [f1, ..., fn])) ... .lash(g)
each fi must accept len(ARGS) positional arguments, and g one.  This is the
obligation behind "an operator without a fast-path case falls back to Z3
instead of raising TypeError" (C02/C05) and its siblings in the evaluator,
the NNF conversion, the solver's elimination chain and octal_to_dec.

frame: `assigns nothing` for serialisation functions: no store/del/mutating
method call on anything reachable from the parameters, local aliases of
`self.__dict__` tracked.
"""
from __future__ import annotations

import ast
import os
from typing import Any, Dict, List, Optional, Tuple

from pyvc import extract

CHAINS = {
    # file: properties served
    "isla/z3_helpers.py": ["C02", "C05", "C01"],
    "isla/evaluator.py": ["C03", "C06"],
    "isla/language.py": ["C09"],
    "isla/solver.py": ["C01", "C02"],
    "isla/isla_predicates.py": ["C20"],
}

FRAMES = [
    # (file, qualname, properties)
    ("isla/derivation_tree.py", "DerivationTree.to_json", ["C17"]),
    ("isla/derivation_tree.py", "DerivationTree.__getstate__", ["C17"]),
    ("isla/language.py", "SMTFormula.__getstate__", ["C17"]),
]

MUTATORS = {"update", "pop", "popitem", "clear", "setdefault", "append", "extend", "insert", "remove", "sort",
            "reverse", "add", "discard", "__setitem__", "__delitem__", "__setattr__", "__delattr__"}


def _accepts(fn: ast.AST, n: int) -> Tuple[bool, str]:
    a = fn.args
    pos = len(a.posonlyargs) + len(a.args)
    required = pos - len(a.defaults)
    if n < required:
        return False, f"needs at least {required} positional arguments, called with {n}"
    if n > pos and a.vararg is None:
        return False, f"accepts at most {pos} positional arguments, called with {n}"
    return True, ""


def _local_and_module_defs(mod: ast.Module, encl: Optional[ast.AST]) -> Dict[str, ast.AST]:
    defs: Dict[str, ast.AST] = {}
    for n in mod.body:
        if isinstance(n, (ast.FunctionDef, ast.AsyncFunctionDef)):
            defs[n.name] = n
    if encl is not None:
        for n in ast.walk(encl):
            if isinstance(n, (ast.FunctionDef, ast.AsyncFunctionDef)) and n is not encl:
                defs[n.name] = n          # nested defs shadow module-level ones
    return defs


def _enclosing_functions(mod: ast.Module) -> Dict[int, ast.AST]:
    """map id(node) -> innermost enclosing FunctionDef"""
    out: Dict[int, ast.AST] = {}

    def visit(node, encl):
        for ch in ast.iter_child_nodes(node):
            e = ch if isinstance(ch, (ast.FunctionDef, ast.AsyncFunctionDef)) else encl
            out[id(ch)] = encl
            visit(ch, e)
    visit(mod, None)
    return out


def find_chains(relpath: str) -> List[Dict[str, Any]]:
    src, mod = extract.load_module(relpath)
    encl = _enclosing_functions(mod)
    chains = []
    for node in ast.walk(mod):
        if not (isinstance(node, ast.Call) and isinstance(node.func, ast.Name) and node.func.id == "flow"):
            continue
        for arg in node.args:
            if not isinstance(arg, ast.Starred):
                continue
            m = arg.value
            if not (isinstance(m, ast.Call) and isinstance(m.func, ast.Name) and m.func.id == "map" and len(m.args) == 2):
                continue
            comp, lst = m.args
            if not (isinstance(comp, ast.Call) and isinstance(comp.func, ast.Name) and comp.func.id == "compose"):
                continue
            lam = comp.args[0]
            if not (isinstance(lam, ast.Lambda) and isinstance(lam.body, ast.Lambda)):
                continue
            fparam = lam.args.args[0].arg
            inner_call = lam.body.body
            if not (isinstance(inner_call, ast.Call) and isinstance(inner_call.func, ast.Name)
                    and inner_call.func.id == fparam):
                continue
            if any(isinstance(a, ast.Starred) for a in inner_call.args) or inner_call.keywords:
                nargs = None
            else:
                nargs = len(inner_call.args)
            if not isinstance(lst, (ast.List, ast.Tuple)):
                continue
            chains.append(dict(file=relpath, lineno=node.lineno, nargs=nargs, elts=lst.elts,
                               encl=encl.get(id(node)), mod=mod, flow=node))
    return chains


def callshape(rep, pid: str) -> int:
    n = 0
    for relpath, props in CHAINS.items():
        if pid not in props:
            continue
        try:
            chains = find_chains(relpath)
        except (OSError, SyntaxError) as exc:
            rep.checker_error(f"callshape: cannot read {relpath}: {exc}")
            continue
        if not chains:
            rep.checker_error(f"callshape: no dispatch chain found in {relpath} (pattern changed?)")
            continue
        for ch in chains:
            defs = _local_and_module_defs(ch["mod"], ch["encl"])
            encl_name = getattr(ch["encl"], "name", "<module>")
            for e in ch["elts"]:
                if isinstance(e, ast.Attribute) and isinstance(e.value, ast.Name) and e.value.id == "self":
                    # bound method of the enclosing class
                    meth = None
                    for cls in ast.walk(ch["mod"]):
                        if isinstance(cls, ast.ClassDef) and any(x is ch["encl"] for x in ast.walk(cls)):
                            for m in cls.body:
                                if isinstance(m, ast.FunctionDef) and m.name == e.attr:
                                    meth = m
                    if meth is None or ch["nargs"] is None:
                        rep.assume(f"callshape {relpath}:{ch['lineno']}: method `self.{e.attr}` not resolved; not checked")
                        continue
                    is_static = any(isinstance(d, ast.Name) and d.id == "staticmethod" for d in meth.decorator_list)
                    ok, why = _accepts(meth, ch["nargs"] + (0 if is_static else 1))
                    n += 1
                    name = f"callshape@{encl_name}:self.{e.attr}"
                    rep.obligation(name, "call-shape", f"{relpath}::{encl_name}", "proved" if ok else "refuted", "ast", 0.0,
                                   f"self.{e.attr} is called with {ch['nargs']} positional arguments")
                    if not ok:
                        rep.violation(f"callshape:{encl_name}:self.{e.attr}",
                                      f"{relpath}:{meth.lineno}: `self.{e.attr}` {why} (incl. self) by the dispatch chain at line {ch['lineno']}",
                                      dict(obligation=name, kind="call-shape", file=relpath, chain_line=ch["lineno"],
                                           callee=e.attr, callee_line=meth.lineno, reason=why,
                                           verifier_output=f"arity check on the AST: {why}"), no_failing_input=True)
                    continue
                if not isinstance(e, ast.Name):
                    rep.assume(f"callshape {relpath}:{ch['lineno']}: chain element `{ast.unparse(e)}` is not a plain name; not checked")
                    continue
                name = f"callshape@{encl_name}:{e.id}"
                fn = defs.get(e.id)
                if fn is None:
                    rep.assume(f"callshape {relpath}:{ch['lineno']}: `{e.id}` is not defined in this module; not checked")
                    continue
                if ch["nargs"] is None:
                    continue
                body = [b for b in fn.body if not (isinstance(b, ast.Expr) and isinstance(b.value, ast.Constant))]
                if len(body) == 1 and isinstance(body[0], ast.Raise):
                    # a terminal element that only raises: whether the call raises its own exception or a
                    # TypeError for the arity makes no difference to any listed property -> observation only
                    ok, why = _accepts(fn, ch["nargs"])
                    if not ok:
                        rep.assume(f"observation (no property affected): {relpath}:{fn.lineno} `{e.id}` only raises, and {why} "
                                   f"by the chain at line {ch['lineno']} (TypeError instead of its own exception)")
                    continue
                ok, why = _accepts(fn, ch["nargs"])
                n += 1
                rep.obligation(name, "call-shape", f"{relpath}::{encl_name}", "proved" if ok else "refuted", "ast", 0.0,
                               f"{e.id} is called with {ch['nargs']} positional arguments")
                if not ok:
                    rep.violation(f"callshape:{encl_name}:{e.id}",
                                  f"{relpath}:{fn.lineno}: `{e.id}` {why} by the dispatch chain at line {ch['lineno']} "
                                  f"-> TypeError instead of falling through the chain",
                                  dict(obligation=name, kind="call-shape", file=relpath, chain_line=ch["lineno"],
                                       callee=e.id, callee_line=fn.lineno, reason=why,
                                       verifier_output=f"arity check on the AST: {why}"),
                                  no_failing_input=True)
    return n


def _frame_violations(fn: ast.AST) -> List[str]:
    params = [a.arg for a in fn.args.args]
    aliases = set(params)
    bad: List[str] = []

    def rooted(e) -> bool:
        """expression denotes (part of) caller-visible state"""
        while isinstance(e, (ast.Attribute, ast.Subscript)):
            e = e.value
        return isinstance(e, ast.Name) and e.id in aliases

    # alias propagation (flow-insensitive, conservative): x = <rooted expr> makes x an alias when the
    # expression is an attribute/subscript/name (no call: calls build new objects, e.g. dict(...))
    changed = True
    while changed:
        changed = False
        for n in ast.walk(fn):
            if isinstance(n, ast.Assign) and len(n.targets) == 1 and isinstance(n.targets[0], ast.Name):
                v = n.value
                if isinstance(v, (ast.Name, ast.Attribute, ast.Subscript)) and rooted(v) and n.targets[0].id not in aliases:
                    aliases.add(n.targets[0].id)
                    changed = True
    nested = [n for n in ast.walk(fn) if isinstance(n, (ast.FunctionDef, ast.Lambda)) and n is not fn]
    nested_params = {a.arg for f in nested for a in f.args.args}
    for n in ast.walk(fn):
        if isinstance(n, ast.Delete):
            for t in n.targets:
                if isinstance(t, (ast.Attribute, ast.Subscript)) and rooted(t):
                    bad.append(f"L{n.lineno}: del {ast.unparse(t)}")
        elif isinstance(n, (ast.Assign, ast.AugAssign, ast.AnnAssign)):
            targets = n.targets if isinstance(n, ast.Assign) else [n.target]
            for t in targets:
                for tt in ast.walk(t):
                    if isinstance(tt, (ast.Attribute, ast.Subscript)) and isinstance(tt.ctx, ast.Store) and rooted(tt):
                        bad.append(f"L{n.lineno}: store to {ast.unparse(tt)}")
        elif isinstance(n, ast.Call) and isinstance(n.func, ast.Attribute) and n.func.attr in MUTATORS:
            if rooted(n.func.value):
                base = n.func.value
                while isinstance(base, (ast.Attribute, ast.Subscript)):
                    base = base.value
                if base.id not in nested_params:
                    bad.append(f"L{n.lineno}: mutating call {ast.unparse(n.func)}(...)")
    return bad


def frame(rep, pid: str) -> int:
    n = 0
    for relpath, qual, props in FRAMES:
        if pid not in props:
            continue
        try:
            fn, seg, sha, lineno = extract.find(relpath, qual)
        except (extract.NotFound, OSError, SyntaxError) as exc:
            rep.checker_error(f"frame: {relpath}::{qual}: {exc}")
            continue
        bad = _frame_violations(fn)
        n += 1
        rep.function_under_contract(f"{relpath}::{qual}", sha)
        rep.obligation("frame:assigns-nothing", "frame", f"{relpath}::{qual}", "proved" if not bad else "refuted", "ast", 0.0,
                       "no store/del/mutating call on state reachable from the parameters (aliases tracked)")
        if bad:
            rep.violation(f"frame:{qual}", f"{relpath}::{qual} modifies caller-visible state: {'; '.join(bad)}",
                          dict(obligation="frame:assigns-nothing", kind="frame", function=f"{relpath}::{qual}",
                               writes=bad, verifier_output="; ".join(bad)), no_failing_input=True)
    return n


def _impure_writes(fn: ast.AST) -> List[str]:
    """writes of a closure to anything but its own locals (captured variables, globals)"""
    params = {a.arg for a in fn.args.args} | ({fn.args.vararg.arg} if fn.args.vararg else set())
    body = fn.body if isinstance(fn.body, list) else [fn.body]
    local = set(params)
    for st in body:
        for n in ast.walk(st):
            if isinstance(n, ast.Name) and isinstance(n.ctx, ast.Store):
                local.add(n.id)
            elif isinstance(n, (ast.comprehension,)):
                for t in ast.walk(n.target):
                    if isinstance(t, ast.Name):
                        local.add(t.id)
    bad: List[str] = []

    def base(e):
        while isinstance(e, (ast.Attribute, ast.Subscript)):
            e = e.value
        return e.id if isinstance(e, ast.Name) else None
    for st in body:
        for n in ast.walk(st):
            if isinstance(n, (ast.Nonlocal, ast.Global)):
                bad.append(f"L{n.lineno}: {'nonlocal' if isinstance(n, ast.Nonlocal) else 'global'} {', '.join(n.names)}")
                local -= set(n.names)
    for st in body:
        for n in ast.walk(st):
            if isinstance(n, ast.Call) and isinstance(n.func, ast.Attribute) and n.func.attr in MUTATORS:
                b = base(n.func.value)
                if b is not None and b not in local:
                    bad.append(f"L{n.lineno}: mutating call {ast.unparse(n.func)}(...) on captured `{b}`")
            elif isinstance(n, (ast.Attribute, ast.Subscript)) and isinstance(n.ctx, (ast.Store, ast.Del)):
                b = base(n)
                if b is not None and b not in local:
                    bad.append(f"L{n.lineno}: store to {ast.unparse(n)} (captured `{b}`)")
            elif isinstance(n, ast.Name) and isinstance(n.ctx, ast.Store) and n.id not in local:
                bad.append(f"L{n.lineno}: assignment to non-local `{n.id}`")
    return bad


def pure_constructors(rep, pid: str) -> int:
    """C05/C02: the constructor handed to construct_result computes ISLa's value of a ground operator application
    from the argument values; it is re-used for every instantiation of the atom (closure + lru_cache on
    evaluate_z3_expression), so it must assign nothing but its own locals -- otherwise the value depends on the
    history of earlier evaluations."""
    if pid not in ("C05", "C02"):
        return 0
    relpath = "isla/z3_helpers.py"
    try:
        src, mod = extract.load_module(relpath)
    except (OSError, SyntaxError) as exc:
        rep.checker_error(f"pure-constructor: cannot read {relpath}: {exc}")
        return 0
    n = 0
    for fn in mod.body:
        if not (isinstance(fn, ast.FunctionDef) and fn.name.startswith("evaluate_z3_")):
            continue
        nested = {x.name: x for x in ast.walk(fn) if isinstance(x, ast.FunctionDef) and x is not fn}
        for call in ast.walk(fn):
            if not (isinstance(call, ast.Call) and isinstance(call.func, ast.Name) and call.func.id == "construct_result"
                    and call.args):
                continue
            ctor = call.args[0]
            target = None
            if isinstance(ctor, ast.Lambda):
                target = ctor
            elif isinstance(ctor, ast.Name) and ctor.id in nested:
                target = nested[ctor.id]
            elif isinstance(ctor, ast.Name):
                continue            # a builtin / module-level function (sum, prod): no captured state
            if target is None:
                rep.assume(f"pure-constructor {relpath}:{call.lineno}: constructor `{ast.unparse(ctor)[:40]}` not resolved; not checked")
                continue
            bad = _impure_writes(target)
            n += 1
            name = f"frame:constructor-assigns-nothing@{fn.name}"
            rep.obligation(name, "frame", f"{relpath}::{fn.name}", "proved" if not bad else "refuted", "ast", 0.0,
                           "the constructor handed to construct_result writes only its own locals")
            if bad:
                rep.violation(f"frame:{fn.name}:constructor-is-stateful",
                              f"{relpath}::{fn.name}: the constructor passed to construct_result keeps state across calls "
                              f"({'; '.join(bad)}); it is re-used for every instantiation of the atom, so the value "
                              "returned depends on earlier evaluations",
                              dict(obligation=name, kind="frame", function=f"{relpath}::{fn.name}", writes=bad,
                                   verifier_output="; ".join(bad)), no_failing_input=True)
    if n == 0:
        rep.checker_error("pure-constructor: no construct_result(...) call found in isla/z3_helpers.py (pattern changed?)")
    return n


def run(rep, pid: str):
    n = callshape(rep, pid) + frame(rep, pid) + pure_constructors(rep, pid)
    rep.section("syntactic", obligations=n)
    return n
