"""C01 (bounded) -- every tree returned by ``ISLaSolver.solve()`` is closed, a
derivation tree of the reference grammar rooted at the (requested) start
symbol, its string is in the language, and it satisfies the constraint under
the specification semantics -- for every call of a sequence of calls.

Contract evaluated on the REAL ``solve()`` with the independent oracles
``bounded.reftree`` (``ref_open / ref_valid / ref_member / ref_str``) and
``bounded.refeval.ref_eval_ex``; ISLa's own evaluator is never consulted.
Cases: ``bounded.c01_cases`` (templates x settings grid).
"""

from __future__ import annotations

import json
import os
import time
from typing import Any, Dict, List

from bounded import c01_cases as cc

MODULE = "checks.bounded_C01"

FAILURES = ("returns-non-tree", "returns-open-tree", "returns-non-derivation-tree",
            "string-not-in-language", "violates-constraint")


def tree_failures(call: Dict[str, Any]) -> List[str]:
    """Names of the contract clauses a checked ``solve()`` result breaks."""
    if call["kind"] == "non-tree":
        return ["returns-non-tree"]
    out = []
    if call["open"]:
        out.append("returns-open-tree")
    if not call["valid"]:
        out.append("returns-non-derivation-tree")
    if call["member"] is False:
        out.append("string-not-in-language")
    if call["eval"] is False and call["exact"]:
        out.append("violates-constraint")
    return out


def _sanity(rep) -> None:
    """Known-by-construction verdicts of the contract evaluator itself."""
    from isla.derivation_tree import DerivationTree as T
    from bounded import refeval, reftree
    from bounded.grammars import GRAMMARS

    g = GRAMMARS["assgn"]
    case = dict(grammar="assgn", start_symbol=None)
    good = reftree.tree_from_string(g, "a := 1")
    f_false = refeval.parse_formula('forall <var> v: v = "b"', g)
    f_true = refeval.parse_formula('forall <var> v: v = "a"', g)
    r1 = cc.check_tree(case, good, f_false)
    r2 = cc.check_tree(case, good, f_true)
    open_tree = T("<start>", (T("<stmt>", None),))
    r3 = cc.check_tree(case, open_tree, f_true)
    bad_tree = T("<start>", (T("<assgn>", (T("x", ()),)),))
    r4 = cc.check_tree(case, bad_tree, f_true)
    r5 = cc.check_tree(dict(grammar="assgn", start_symbol="<stmt>"), good, f_true)
    r6 = cc.check_tree(dict(grammar="assgn", start_symbol="<assgn>"), good, f_true)
    ok = (tree_failures(r1) == ["violates-constraint"] and tree_failures(r2) == []
          and "returns-open-tree" in tree_failures(r3)
          and "returns-non-derivation-tree" in tree_failures(r4)
          and tree_failures(r5) == [] and r5["wrapped"] == "effective-grammar"
          and "returns-non-derivation-tree" in tree_failures(r6)
          and tree_failures(dict(kind="non-tree")) == ["returns-non-tree"])
    rep.section("sanity", contract_evaluator_sanity_cases=7, passed=bool(ok))
    if not ok:
        rep.checker_error(f"C01 sanity cases gave unexpected verdicts: {r1} {r2} {r3} {r4} {r5} {r6}")


def _describe(rep, tier: str, info: Dict[str, Any]) -> None:
    rep.rule("case = one tree returned by solve(); solver objects = constraint template (bounded.c01_cases.TEMPLATES: "
             "tree quantifiers with/without match expressions, structural predicates, count, exists int, SMT string/int "
             "atoms incl. div/mod/abs/unary minus/str.*/re.*; satisfiable and unsatisfiable) x settings grid point "
             "(max_number_free_instantiations, max_number_smt_instantiations in {1,3,10}; enable_optimized_z3_queries, "
             "enforce_unique_trees_in_queue, global_fuzzer in {F,T}; tree_insertion_methods in 0..7; start_symbol unset "
             "or an inner nonterminal); up to 10 solve() calls per object; a case is non-trivial iff a constraint is "
             "present (otherwise only closedness/validity/membership are checked)")
    rep.rule("quick: every template once with a seed-drawn grid point plus seed-drawn templates with default settings; "
             "thorough: every template with default settings, 30 seed-drawn distinct grid points and a pairwise cover "
             "of the settings grid")
    rep.bound(f"{info['templates']} templates over 11 grammars, settings grid of {info['grid_points']} points "
              f"(full product {info['full_grid_solver_objects']} solver objects, NOT enumerated: {info['selected']} "
              f"selected in tier {tier}); first 10 solutions per solver object; timeout_seconds=10; "
              "soft watchdog 45 s, hard watchdog 75 s per solver object; oracle budget 20 s per tree")
    rep.assume("oracles bounded.reftree / bounded.refeval / bounded.refpred are trusted (independent of ISLa's "
               "evaluator, parser and tree methods; they read ISLa formula objects produced by parse_isla)")
    rep.assume("str.to.int is only applied to nonterminals deriving unsigned decimal numerals (pre-condition from the "
               "property statement); `level` is only used with arguments not labelled with the level nonterminal")
    rep.assume("results for which the oracle verdict is not exact (numeric quantifier decided on the finite stand-in "
               "domain), unsupported or undecided are inconclusive, never violations")
    rep.assume("completeness is NOT part of the contract: a solver that returns no solution for a satisfiable "
               "constraint (StopIteration/TimeoutError) is only counted")
    rep.assume("exceptions other than StopIteration/TimeoutError are C02's subject and only counted here")


def run(rep, tier: str, seed: int) -> None:
    t0 = time.time()
    _sanity(rep)
    cases, info = cc.select_cases(tier, seed, salt="C01", quick_total=172)
    _describe(rep, tier, info)
    rep.exhaustive = False
    results = cc.run_cases(cases, n_procs=16)

    n_solutions = n_exact = n_objects = 0
    n_exhausted = n_timeouts = n_other_exc = n_zero = n_inner = n_unsat_objects = 0
    per_grammar: Dict[str, int] = {}
    per_setting: Dict[str, int] = {}
    all_failures: List[Dict[str, Any]] = []
    for case, status, rec in results:
        n_objects += 1
        cid = case["cid"]
        if status == "killed":
            rep.note_inconclusive(f"{cid}: {rec}")
            continue
        if status != "ok":
            rep.checker_error(f"worker failed on {cid}: {str(rec)[:400]}")
            continue
        if rec["formula_parse_error"]:
            rep.checker_error(f"template {case['tid']} does not parse: {rec['formula_parse_error']}")
            continue
        if rec["ctor_exc"]:
            rep.note_inconclusive(f"{cid}: constructor raised {rec['ctor_exc']['type']}: {rec['ctor_exc']['msg'][:120]}")
            rep.section("solver_objects", constructor_exceptions=1)
            continue
        if rec["watchdog"]:
            rep.note_inconclusive(f"{cid}: soft watchdog after {len(rec['calls'])} calls")
        trees = 0
        for i, call in enumerate(rec["calls"]):
            if call["kind"] == "exc":
                if call["type"] == "StopIteration":
                    n_exhausted += 1
                elif call["type"] == "TimeoutError":
                    n_timeouts += 1
                else:
                    n_other_exc += 1
                continue
            trees += 1
            n_solutions += 1
            per_grammar[case["grammar"]] = per_grammar.get(case["grammar"], 0) + 1
            for k, v in case["settings"].items():
                per_setting[f"{k}={v}"] = per_setting.get(f"{k}={v}", 0) + 1
            if case["start_symbol"]:
                n_inner += 1
            rep.case(key=f"{cid}#{i}:{call.get('str')}", nontrivial=case["text"] is not None,
                     sample=(dict(grammar=case["grammar"], constraint=case["text"], settings=case["settings"],
                                  start_symbol=case["start_symbol"], call=i, solution=call.get("str"),
                                  oracle=dict(open=call.get("open"), valid=call.get("valid"),
                                              member=call.get("member"), satisfies=call.get("eval"),
                                              exact=call.get("exact")))
                             if n_solutions % 97 == 1 else None))
            failures = tree_failures(call)
            if call["kind"] == "tree":
                if call["eval"] is None:
                    rep.note_inconclusive(f"{cid}#{i} {call.get('str')!r}: {call['eval_note']}")
                elif not call["exact"]:
                    rep.note_inconclusive(f"{cid}#{i} {call.get('str')!r}: oracle verdict {call['eval']} is relative "
                                          "to the finite numeric domain")
                else:
                    n_exact += 1
                if call["member"] is None:
                    rep.section("solutions", membership_not_checked_string_too_long=1)
            for failure in failures:
                all_failures.append(dict(cid=cid, failure=failure, call=i, result=call.get("str")))
                # with a requested start symbol the constant `start` is bound to the initial
                # tree of that symbol while model values are parsed as <start>: one cause,
                # whatever the constraint class
                # ... but only constraints that use `start` as a TERM (count(start, ..), str.len(start), start = ..)
                # are affected; a constraint that names it only as the range of a quantifier (`in start`) is not,
                # and a wrong solution for such a constraint is reported under its own class
                import re as _re
                start_as_term = bool(_re.search(r"\bstart\b", _re.sub(r"\bin\s+start\b", " ", case["text"])))
                sig_class = ("requested-start-symbol"
                             if case["start_symbol"] and failure == "violates-constraint" and start_as_term
                             else case["cls"])
                rep.violation(
                    f"solve:{failure}:{sig_class}",
                    f"grammar {case['grammar']} constraint {case['text']!r} settings {cc.settings_key(case['settings'])}{' ' + str(case['extra_kwargs']) if case.get('extra_kwargs') else ''} "
                    f"start_symbol {case['start_symbol']}: solve() call #{i + 1} returned {call.get('str', call.get('repr'))!r}; "
                    f"oracle: open={call.get('open')} derivation-tree={call.get('valid')} in-language={call.get('member')} "
                    f"satisfies={call.get('eval')} (expected closed, valid, member, satisfying)",
                    dict(module=MODULE, case=case, failure=failure, call_index=i, tree=call.get("struct")),
                )
        if trees == 0:
            n_zero += 1
        if case["expect"] == "unsat":
            n_unsat_objects += 1

    rep.section("solver_objects", run=n_objects, zero_solutions=n_zero, exhausted_StopIteration=n_exhausted,
                timeouts_TimeoutError=n_timeouts, other_exceptions_counted_for_C02=n_other_exc,
                unsatisfiable_templates_run=n_unsat_objects)
    rep.section("solutions", checked=n_solutions, constraint_verdict_exact=n_exact,
                with_inner_start_symbol=n_inner, per_grammar=per_grammar, per_setting_value=per_setting)
    rep.section("timing", wall_s=round(time.time() - t0, 1))
    if os.environ.get("C01_DUMP"):
        json.dump(dict(failures=all_failures, results=[(s, r) for _, s, r in results]), open(os.environ["C01_DUMP"], "w"))
    if n_solutions == 0:
        rep.checker_error("no solution was checked at all")
    if n_exact == 0:
        rep.checker_error("no solution had an exact oracle verdict")
    if n_exhausted == 0:
        rep.checker_error("no solver object was exhausted (StopIteration) -- anti-vacuity")
    if n_timeouts == 0:
        rep.checker_error("no solver object hit its timeout -- anti-vacuity")
    if n_inner == 0:
        rep.checker_error("no solution from a solver with an inner start_symbol")
    missing = [g for g in sorted({c["grammar"] for c in cases}) if per_grammar.get(g, 0) == 0]
    if missing:
        rep.checker_error(f"grammars without any checked solution: {missing}")
    expected_values = [f"{k}={v}" for k, dom in (("free", cc.FREE), ("smt", cc.SMT), ("opt", cc.BOOL),
                                                 ("uniq", cc.BOOL), ("tim", cc.TIM), ("gf", cc.BOOL)) for v in dom]
    unreached = [v for v in expected_values if per_setting.get(v, 0) == 0]
    if unreached:
        rep.checker_error(f"setting values without any checked solution: {unreached}")


def replay(path: str) -> int:
    payload = json.load(open(path, encoding="utf-8"))
    case = payload["case"]
    failure = payload.get("failure")
    print(f"replaying {case['cid']}: constraint {case['text']!r}, looking for {failure}")
    results = cc.run_cases([case], n_procs=1)
    _, status, rec = results[0]
    if status != "ok":
        print("could not re-run:", status, rec)
        return 0
    still = 0
    for i, call in enumerate(rec["calls"]):
        if call["kind"] == "exc":
            print(f"  call #{i + 1}: raised {call['type']}")
            continue
        fails = tree_failures(call)
        print(f"  call #{i + 1}: {call.get('str', call.get('repr'))!r} open={call.get('open')} valid={call.get('valid')} "
              f"member={call.get('member')} satisfies={call.get('eval')} exact={call.get('exact')} -> {fails or 'ok'}")
        if failure in fails or (failure is None and fails):
            still = 1
    print("still failing" if still else "no longer failing")
    return still
