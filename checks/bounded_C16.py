"""C16 (bounded part) -- derivation-tree operation histories.

Contract (property statement C16): for every tree built through the public
tree operations

* ``str(t)`` is the concatenation of its leaves (``ref_str``) and
  ``t.is_open()`` holds exactly when some leaf is unexpanded (``ref_open``);
* path lookup (``get_subtree``/``is_valid_path``), node search (``find_node``),
  ``paths()`` and the path-indexed view ``trie()`` (``keys/items/values/
  __getitem__/get_subtrie``) agree with the independent traversal
  ``ref_paths`` on which node is at which path -- for any branching degree;
* structurally equal trees have equal ``structural_hash()``;
* ``replace_path(p, x)`` changes only the subtree at ``p``: every subtree that
  is not on the way to ``p`` is the identical object, nodes on the way keep
  value/id/arity, and the receiver is unchanged.

Histories: from each start tree a random sequence (length <= 6) of
``replace_path`` (with/without ``retain_id``), ``substitute``,
``expand_one_step``, ``new_ids`` and ``from_parse_tree(to_parse_tree())``,
interleaved with cache-filling observations (``is_open``, ``structural_hash``,
``hash``, ``len``, ``str``, ``paths``, ``trie``) on random subtrees.  After every
step the whole battery is evaluated on the new tree; in half of the histories
only after the last step (so that operations also meet never-observed caches).
"""
from __future__ import annotations

import json
import multiprocessing as mp
import random
import signal
import traceback
from typing import Dict, List, Optional, Tuple

MODULE = "checks.bounded_C16"
MAX_LEN = 6
WIDE_LIMIT = 28  # child indices >= 28 are outside the trie alphabet chr(0..29)


# --------------------------------------------------------------------------- #
# job lists
# --------------------------------------------------------------------------- #

def _jobs(tier: str, seed: int) -> List[Tuple[str, list, str]]:
    from bounded.grammars import GRAMMARS, ENUM_NODES
    from bounded.c16_trees import ref_structs

    quick = tier == "quick"
    rng = random.Random(f"C16:{seed}:{tier}")
    jobs: List[Tuple[str, list, str]] = []
    n_ref = 40 if quick else 150
    n_hist = 5 if quick else 10
    for gname in GRAMMARS:
        nodes = min(ENUM_NODES[gname], 12 if quick else 14)
        for allow_open in (0, 1):
            mn = nodes if not allow_open else max(5, nodes - 4)
            total = len(ref_structs(gname, bool(allow_open), mn))
            if total == 0:
                continue
            idxs = list(range(min(4, total)))
            pool = list(range(len(idxs), total))
            rng.shuffle(pool)
            idxs += sorted(pool[: max(0, n_ref - len(idxs))])
            for i in idxs:
                for h in range(n_hist):
                    jobs.append(("ref", ["ref", gname, allow_open, mn, i], f"{seed}:{gname}:{allow_open}:{i}:{h}"))
    n_rand = 30 if quick else 120
    for gname in GRAMMARS:
        for i in range(n_rand):
            depth = 3 + (i % 4)
            for h in range(n_hist):
                jobs.append(("rand", ["rand", gname, depth, f"{seed}:{gname}:{i}"], f"{seed}:r:{gname}:{i}:{h}"))
    for n in (30, 40):
        for variant in (0, 1, 2):
            for h in range(80 if quick else 400):
                jobs.append(("wide", ["wide", n, variant], f"{seed}:w:{n}:{variant}:{h}"))
    for k in range(1, 41):
        for variant in (0, 1, 2):
            for h in range(12 if quick else 60):
                jobs.append(("fan", ["fan", k, variant], f"{seed}:f:{k}:{variant}:{h}"))
    return jobs


# --------------------------------------------------------------------------- #
# the battery (runs in the worker)
# --------------------------------------------------------------------------- #

class Observers:
    """The real observers; the sanity case overrides one of them."""

    def str(self, t):
        return str(t)

    def is_open(self, t):
        return t.is_open()


def _nid(n):
    return (n.value, n.id, None if n.children is None else len(n.children))


def battery(t, rng: random.Random, obs: Optional[Observers] = None, after: str = "init") -> List[Tuple[str, str]]:
    """-> [(signature, what)]"""
    from bounded.reftree import ref_paths, ref_str, ref_open, ref_get, ref_find_id, to_struct, from_struct
    from bounded.c16_trees import max_branching

    obs = obs or Observers()
    out: List[Tuple[str, str]] = []
    rp = ref_paths(t)
    n = len(rp)
    wide = max_branching(t) > WIDE_LIMIT
    cls = "branching>28" if wide else "branching<=28"

    def has_big(p):
        return any(i >= WIDE_LIMIT for i in p)

    # (a) string
    s, rs = obs.str(t), ref_str(t, True)
    if s != rs:
        out.append((f"str:differs-from-leaf-concatenation:after-{after}", f"str(t)={s!r} ref_str={rs!r}"))
    s2, rs2 = t.to_string(show_open_leaves=False), ref_str(t, False)
    if s2 != rs2:
        out.append((f"to_string(show_open_leaves=False):differs-from-leaf-concatenation:after-{after}", f"{s2!r} vs {rs2!r}"))
    # (b) openness, on every subtree (sample when large)
    nodes = rp if n <= 120 else [rp[0]] + rng.sample(rp[1:], 119)
    for p, node in nodes:
        o = obs.is_open(node)
        if o != ref_open(node):
            out.append((f"is_open:differs-from-some-leaf-unexpanded:after-{after}",
                        f"subtree at {p} is_open()={o} but ref_open={ref_open(node)}; tree {t!s:.60}"))
            break
    # (c) paths()
    ps = t.paths()
    if [p for p, _ in ps] != [p for p, _ in rp]:
        out.append((f"paths:path-list-differs:{cls}", f"{[p for p, _ in ps][:8]} vs {[p for p, _ in rp][:8]}"))
    else:
        for (p, a), (_, b) in zip(ps, rp):
            if _nid(a) != _nid(b):
                out.append((f"paths:wrong-node-at-path:{cls}", f"path {p}: {_nid(a)} vs {_nid(b)}"))
                break
    # (d) get_subtree / is_valid_path
    for p, node in nodes:
        got = t.get_subtree(p)
        if got is None or _nid(got) != _nid(node) or to_struct(got) != to_struct(node):
            out.append((f"get_subtree:wrong-node-at-valid-path:{cls}", f"path {p}: {got!r:.80} vs {_nid(node)}"))
            break
        if not t.is_valid_path(p):
            out.append((f"is_valid_path:false-on-valid-path:{cls}", f"path {p}"))
            break
    for p, node in nodes[:40]:
        k = len(node.children or ())
        for bad in (p + (k,), p + (k + 3,)) + ((p + (0, 0),) if k == 0 else ()):
            if ref_get(t, bad) is None and t.is_valid_path(bad):
                out.append((f"is_valid_path:true-on-nonexistent-path:{cls}", f"path {bad} in {t!s:.40}"))
                break
    # (e) find_node
    ids = [node.id for _, node in rp]
    unique = len(set(ids)) == len(ids)
    for p, node in nodes:
        exp = ref_find_id(t, node.id)
        got = t.find_node(node.id)
        got2 = t.find_node(node)
        if got != exp or got2 != exp:
            out.append((f"find_node:wrong-path-for-id:{cls}", f"id {node.id}: {got}/{got2} vs {exp}"))
            break
        if got != p:
            # node search and path lookup disagree on where this node is: the node at path p carries an id that
            # find_node resolves to another path -- the tree holds the same node (identity) twice, which no public
            # operation applied to trees with distinct ids may produce
            out.append((f"find_node:node-at-path-is-found-at-another-path:{cls}",
                        f"get_subtree({p}).id = {node.id}, find_node({node.id}) = {got} (after {after})"))
            break
    if t.find_node(-12345) is not None:
        out.append(("find_node:absent-id-found", "id -12345"))
    # (f) trie view
    try:
        tr = t.trie()
        keys = tr.keys()
        ref_keys = [p for p, _ in rp]
        if keys != ref_keys:
            missing = [p for p in ref_keys if p not in set(keys)]
            extra = [p for p in keys if p not in set(ref_keys)]
            if missing and not extra and all(has_big(p) for p in missing):
                out.append(("trie.keys:paths-with-child-index>=28-missing",
                            f"{len(missing)} of {len(ref_keys)} paths missing, first {missing[:3]}"))
            elif sorted(keys) == sorted(ref_keys):
                out.append((f"trie.keys:not-in-preorder:{cls}", f"{keys[:6]} vs {ref_keys[:6]}"))
            else:
                out.append((f"trie.keys:differs-from-paths:{cls}", f"missing {missing[:3]} extra {extra[:3]}"))
        # __getitem__
        for p, node in nodes:
            try:
                vp, vn = tr[p]
            except KeyError:
                if has_big(p):
                    out.append(("trie.getitem:KeyError-for-path-with-child-index>=28", f"path {p}"))
                else:
                    out.append((f"trie.getitem:KeyError-for-existing-path:{cls}", f"path {p}"))
                break
            if tuple(vp) != p or _nid(vn) != _nid(node):
                out.append((f"trie.getitem:wrong-entry:{cls}", f"path {p}: ({vp}, {_nid(vn)}) vs {_nid(node)}"))
                break
        # items()/values() of the view returned by trie() and of get_subtrie(p)
        roots: List[Optional[tuple]] = [None, ()]
        inner = [p for p, nd in rp if p and nd.children]
        if inner:
            roots += rng.sample(inner, min(6, len(inner)))
        leafs = [p for p, nd in rp if p and not nd.children]
        if leafs:
            roots += rng.sample(leafs, min(2, len(leafs)))
        bigs = [p for p, _ in rp if has_big(p)]
        if bigs:
            roots.append(bigs[0])
        for root in roots:
            view = tr if root is None else tr.get_subtrie(root)
            base = () if root is None else root
            label = "root-view" if root is None else ("get_subtrie(())" if root == () else "get_subtrie(p)")
            sub = [(p[len(base):], node) for p, node in rp if p[: len(base)] == base]
            try:
                vkeys = view.keys()
                items = view.items()
                values = view.values()
            except Exception as exc:  # noqa
                if has_big(base):
                    out.append(("trie.get_subtrie:exception-for-root-with-child-index>=28", f"{type(exc).__name__} at {base}"))
                else:
                    out.append((f"trie.{label}:exception:{cls}", f"{type(exc).__name__}: {exc} at {base}"))
                continue
            exp_keys = [p for p, _ in sub]
            if vkeys != exp_keys:
                missing = [p for p in exp_keys if p not in set(vkeys)]
                extra = [p for p in vkeys if p not in set(exp_keys)]
                if not extra and missing and has_big(base):
                    out.append(("trie.get_subtrie:view-incomplete-for-root-with-child-index>=28",
                                f"root {base}: {len(missing)} of {len(exp_keys)} entries missing"))
                elif not extra and missing and all(has_big(base + p) for p in missing):
                    if root is not None:
                        out.append(("trie.get_subtrie.keys:paths-with-child-index>=28-missing",
                                    f"root {base}: {len(missing)} of {len(exp_keys)} missing, first {missing[:3]}"))
                elif root is not None:
                    out.append((f"trie.{label}.keys:differs-from-subtree-paths:{cls}",
                                f"root {base}: missing {missing[:3]} extra {extra[:3]}"))
            have = dict(sub)
            trunc = 0
            other = None
            for k, (vp, vn) in items:
                if k in have:
                    if _nid(vn) != _nid(have[k]):
                        other = (k, "node", _nid(vn), _nid(have[k]))
                        break
                    if tuple(vp) != k:
                        if root is None and tuple(vp) == k[-1:]:
                            trunc += 1
                        else:
                            other = (k, "path", tuple(vp))
                            break
            if trunc:
                out.append(("trie.items:root-view:value-path-truncated-to-last-index",
                            f"{trunc} entries of t.trie().items() carry a value path != key, e.g. key (i,j) -> value path (j,); tree {t!s:.40}"))
            if other:
                out.append((f"trie.{label}.items:wrong-entry:{cls}", f"root {base}: {other}"))
            if [tuple(v[0]) for v in values] != [tuple(v[0]) for _, v in items] or \
                    [_nid(v[1]) for v in values] != [_nid(v[1]) for _, v in items]:
                out.append((f"trie.{label}.values:differs-from-items:{cls}", f"root {base}"))
    except Exception as exc:  # noqa
        out.append((f"trie:exception:{cls}", f"{type(exc).__name__}: {exc}"))
    # (g) structural hash of structurally equal copies
    copy1 = from_struct(to_struct(t))
    h = t.structural_hash()
    if copy1.structural_hash() != h:
        out.append((f"structural_hash:differs-on-structurally-equal-copy:after-{after}",
                    f"{h} vs fresh copy {copy1.structural_hash()}; tree {t!s:.60}"))
    if not t.structurally_equal(copy1):
        out.append(("structurally_equal:false-on-equal-copy", f"tree {t!s:.60}"))
    for p, node in (nodes if n <= 40 else rng.sample(nodes, 40)):
        c = from_struct(to_struct(node))
        if c.structural_hash() != node.structural_hash():
            out.append((f"structural_hash:differs-on-structurally-equal-copy:after-{after}",
                        f"subtree at {p}: {node.structural_hash()} vs fresh copy {c.structural_hash()}"))
            break
    return out


# --------------------------------------------------------------------------- #
# operations
# --------------------------------------------------------------------------- #

def _snap(t):
    from bounded.reftree import ref_paths, to_struct
    return (to_struct(t), tuple(n.id for _, n in ref_paths(t)))


def _replacement(G, label, rng):
    from isla.derivation_tree import DerivationTree
    from bounded.reftree import random_tree, ref_prefixes
    if label not in G:
        return DerivationTree(label, ())
    c = rng.randrange(4)
    if c == 0:
        return DerivationTree(label, None)
    x = random_tree(G, label, rng, max_depth=rng.randint(1, 3))
    if c == 1:
        pre = ref_prefixes(x, limit=12)
        if pre:
            # fresh ids: rebuild
            from bounded.reftree import from_struct, to_struct
            return from_struct(to_struct(rng.choice(pre)))
    return x


def _touch(t, rng):
    from bounded.reftree import ref_paths
    rp = ref_paths(t)
    for _ in range(rng.randrange(4)):
        _, node = rng.choice(rp)
        k = rng.randrange(7)
        if k == 0:
            node.is_open()
        elif k == 1:
            node.structural_hash()
        elif k == 2:
            hash(node)
        elif k == 3:
            len(node)
        elif k == 4:
            str(node)
        elif k == 5:
            node.paths()
        else:
            node.trie()


def run_history(spec, hseed: str, max_len: int = MAX_LEN, obs: Optional[Observers] = None) -> dict:
    from isla.derivation_tree import DerivationTree
    from bounded.c16_trees import build, max_branching
    from bounded.reftree import (ref_paths, ref_get, ref_open, ref_str, to_struct, from_struct,
                                 split_expansion, is_nt)

    rng = random.Random(hseed)
    t, G, _root = build(spec)
    canon = {nt: [split_expansion(a) for a in alts] for nt, alts in G.items()}
    viol: List[Tuple[str, str, int]] = []
    steps: List[str] = []
    counters = dict(replace_path=0, replace_path_retain_id=0, substitute=0, expand_one_step=0, new_ids=0,
                    parse_tree_round_trip=0, open_trees=0, closed_trees=0, max_branching=0, deferred_histories=0)

    def note(vs, step):
        for sig, what in vs:
            viol.append((sig, f"[{spec} seed {hseed} steps {steps}] {what}", step))

    # half of the histories observe only at the end, so that operations also run on trees whose
    # cached flags were never filled in by an observation
    defer = rng.random() < 0.5
    if not defer:
        note(battery(t, rng, obs, "init"), 0)
    length = rng.randint(1, max_len)
    step = 0
    attempts = 0
    while step < length and attempts < 4 * max_len:
        attempts += 1
        if not defer or rng.random() < 0.3:
            _touch(t, rng)
        rp = ref_paths(t)
        op = rng.choice(["replace", "replace", "replace", "subst", "expand", "newids", "ptree"])
        before = _snap(t)
        before_obs = (ref_str(t), ref_open(t))
        new_t = None
        if op == "replace":
            p, node = rng.choice(rp)
            x = _replacement(G, node.value, rng)
            retain = rng.random() < 0.3
            steps.append(f"replace_path({p},{to_struct(x)!r:.60},retain_id={retain})")
            r = t.replace_path(p, x, retain_id=retain)
            counters["replace_path_retain_id" if retain else "replace_path"] += 1
            tag = "replace_path" + ("(retain_id)" if retain else "")
            # locality
            for i in range(len(p) + 1):
                nt_, nr_ = ref_get(t, p[:i]), ref_get(r, p[:i])
                if nr_ is None:
                    note([(f"{tag}:path-to-target-missing-in-result", f"prefix {p[:i]}")], step + 1)
                    break
                if i < len(p):
                    if (nr_.value, nr_.id, len(nr_.children or ())) != (nt_.value, nt_.id, len(nt_.children or ())):
                        note([(f"{tag}:node-on-path-changed-value-id-or-arity", f"prefix {p[:i]}: {_nid(nr_)} vs {_nid(nt_)}")], step + 1)
                        break
                    for j, (a, b) in enumerate(zip(nr_.children, nt_.children)):
                        if j != p[i] and a is not b:
                            note([(f"{tag}:sibling-subtree-not-identical-object",
                                   f"child {j} below {p[:i]} is a different object (equal={a == b})")], step + 1)
                            break
                else:
                    if retain:
                        same_kids = (x.children is None and nr_.children is None) or (
                            x.children is not None and nr_.children is not None
                            and len(x.children) == len(nr_.children)
                            and all(a is b for a, b in zip(x.children, nr_.children)))
                        if nr_.value != x.value or nr_.id != nt_.id or not same_kids:
                            note([(f"{tag}:target-is-not-replacement-with-old-id", f"{_nid(nr_)} vs value {x.value} id {nt_.id}")], step + 1)
                    elif nr_ is not x:
                        note([(f"{tag}:target-is-not-the-replacement-object", f"{_nid(nr_)} vs {_nid(x)}")], step + 1)
            new_t = r
        elif op == "subst":
            ids = [n.id for _, n in rp]
            if len(set(ids)) != len(ids):
                continue
            chosen = rng.sample(rp, min(len(rp), rng.randint(1, 3)))
            m = {node: _replacement(G, node.value, rng) for _, node in chosen}
            steps.append(f"substitute({[(p, to_struct(m[n])) for p, n in chosen]!r:.90})")
            by_id = {node.id: x for node, x in m.items()}

            def expect(node):
                if node.id in by_id:
                    return by_id[node.id]
                if node.children is None:
                    return DerivationTree(node.value, None, id=node.id)
                return DerivationTree(node.value, [expect(c) for c in node.children], id=node.id)

            r = t.substitute(m)
            counters["substitute"] += 1
            if _snap(r) != _snap(expect(t)):
                note([("substitute:result-differs-from-replacing-outermost-keys",
                       f"got {to_struct(r)!r:.120}")], step + 1)
            new_t = r
        elif op == "expand":
            opens = [(p, n) for p, n in rp if n.children is None and n.value in G]
            combos = 1
            for _, n in opens:
                combos *= len(G[n.value])
            if not opens or combos > 64:
                continue
            steps.append("expand_one_step")
            rs = t.expand_one_step(canon)
            counters["expand_one_step"] += 1
            if not rs:
                note([("expand_one_step:no-result-for-open-tree", f"{len(opens)} open leaves")], step + 1)
                continue
            for r in rs:
                ok = True
                expanded = 0
                cut_children = {}
                for p, leaf in opens:
                    nr_ = ref_get(r, p)
                    if nr_ is None or nr_.value != leaf.value or nr_.id != leaf.id:
                        ok = False
                        break
                    if nr_.children is None:
                        continue
                    expanded += 1
                    labels = [c.value for c in nr_.children]
                    if labels not in canon[leaf.value]:
                        ok = False
                        break
                    for c in nr_.children:
                        if (c.children is None) != is_nt(c.value) or (c.children not in (None, ())):
                            ok = False
                    cut_children[p] = True
                if ok:
                    # everything else unchanged: cut the expanded leaves back
                    def cut(node, path):
                        if path in cut_children:
                            return (node.value, None), (node.id,)
                        if node.children is None:
                            return (node.value, None), (node.id,)
                        parts = [cut(c, path + (i,)) for i, c in enumerate(node.children)]
                        return (node.value, tuple(s for s, _ in parts)), (node.id,) + tuple(x for _, ids_ in parts for x in ids_)
                    if cut(r, ()) != before:
                        ok = False
                if not ok or expanded == 0:
                    note([("expand_one_step:result-is-not-a-one-step-expansion", f"result {to_struct(r)!r:.120}")], step + 1)
                    break
            new_t = rng.choice(rs)
        elif op == "newids":
            steps.append("new_ids")
            r = t.new_ids()
            counters["new_ids"] += 1
            old = set(before[1])
            new_ids_ = [n.id for _, n in ref_paths(r)]
            if to_struct(r) != before[0]:
                note([("new_ids:structure-changed", f"{to_struct(r)!r:.100}")], step + 1)
            if set(new_ids_) & old or len(set(new_ids_)) != len(new_ids_):
                note([("new_ids:ids-not-fresh-or-not-unique", f"{new_ids_[:6]}")], step + 1)
            new_t = r
        else:
            steps.append("from_parse_tree(to_parse_tree())")
            r = DerivationTree.from_parse_tree(t.to_parse_tree())
            counters["parse_tree_round_trip"] += 1
            if to_struct(r) != before[0]:
                note([("from_parse_tree(to_parse_tree):structure-changed", f"{to_struct(r)!r:.100} vs {before[0]!r:.100}")], step + 1)
            new_t = r
        step += 1
        # frame: the receiver is unchanged, also as seen through ISLa's own observers
        if _snap(t) != before:
            note([(f"{op}:receiver-mutated", f"{to_struct(t)!r:.100}")], step)
        if not defer and (str(t), t.is_open()) != before_obs:
            note([(f"{op}:receiver-observations-changed", f"str/is_open {(str(t), t.is_open())} vs {before_obs}")], step)
        t = new_t
        counters["open_trees" if ref_open(t) else "closed_trees"] += 1
        counters["max_branching"] = max(counters["max_branching"], max_branching(t))
        if not defer:
            note(battery(t, rng, obs, op), step)
    if defer:
        note(battery(t, rng, obs, "deferred-history"), step)
        counters["deferred_histories"] = 1
    return dict(steps=steps, n_steps=step, violations=viol, counters=counters,
                final=f"{ref_str(t)!s:.60}")


def _alarm(_s, _f):
    raise TimeoutError("watchdog")


def _worker(job):
    idx, family, spec, hseed = job
    signal.signal(signal.SIGALRM, _alarm)
    signal.alarm(120)
    try:
        res = run_history(spec, hseed)
        res.update(idx=idx, family=family, spec=spec, hseed=hseed)
        return res
    except TimeoutError:
        return dict(idx=idx, family=family, spec=spec, hseed=hseed, timeout=True)
    except Exception:  # the harness itself (or an ISLa exception inside an operation)
        return dict(idx=idx, family=family, spec=spec, hseed=hseed, crash=traceback.format_exc(limit=8))
    finally:
        signal.alarm(0)


# --------------------------------------------------------------------------- #
# entry points
# --------------------------------------------------------------------------- #

def _sanity(rep):
    """The battery must notice a lying observer, and be silent on a tree whose
    verdicts are known by construction."""
    from isla.derivation_tree import DerivationTree as D

    class LiarOpen(Observers):
        def is_open(self, t):
            return False

    class LiarStr(Observers):
        def str(self, t):
            return "?"

    t = D("<start>", [D("<c>", [D("x", ())]), D("<c>", None)])
    rng = random.Random(0)
    if not any(s.startswith("is_open:") for s, _ in battery(t, rng, LiarOpen())):
        rep.checker_error("sanity: battery did not notice a wrong is_open verdict")
    if not any(s.startswith("str:") for s, _ in battery(t, rng, LiarStr())):
        rep.checker_error("sanity: battery did not notice a wrong string")
    closed = D("<start>", [D("<c>", [D("x", ())]), D("<c>", [D("y", ())])])
    res = battery(closed, rng)
    res = [r for r in res if not r[0].startswith("trie.items:root-view")]
    if str(closed) != "xy" or closed.is_open() or res:
        rep.checker_error(f"sanity: known-good tree <start>(<c>(x),<c>(y)) reported {res}")
    rep.case(key="sanity", nontrivial=True)


def run(rep, tier, seed):
    rep.rule("case = one step of an operation history (start tree spec, history seed, step index); start trees: "
             "ref_trees of the 11 fixed grammars (closed and open prefixes), random_tree, wide-grammar trees with a "
             "30/40-children node, hand-built fan nodes with 1..40 children (closed / partly open / with grandchildren); "
             "operations replace_path (30% retain_id), substitute (1-3 keys, fresh replacements), expand_one_step, new_ids, "
             "from_parse_tree(to_parse_tree()), interleaved with cache-filling observations on random subtrees; a step is "
             "non-trivial when an operation produced a tree on which the full battery ran")
    rep.bound(f"history length <= {MAX_LEN}; branching degree 1..40; replacement trees of depth <= 3; expand_one_step only "
              "when the product of alternatives over all open leaves is <= 64; battery on every node for trees <= 120 nodes, "
              "else on 120 sampled nodes; get_subtrie on <= 10 roots per tree")
    rep.assume("oracle: bounded.reftree (ref_paths/ref_str/ref_open/ref_get/ref_find_id/to_struct) -- own traversals over "
               ".value/.children/.id only")
    rep.assume("node ids are unique in every tree of a history (replacements are fresh trees); substitute/find_node are only "
               "specified for unique ids")
    rep.assume("paths passed to get_subtree/is_valid_path consist of non-negative indices; get_subtree is only called on existing "
               "paths (its behaviour on others is undocumented), is_valid_path also on nonexistent ones")
    rep.assume("node agreement is compared by (value, id, arity) and structure, not by object identity, because paths()/"
               "get_subtree()/trie() are lru_cached on ==-equal receivers; object identity is demanded only for the "
               "replace_path locality clause, checked through .children")
    rep.assume("expand_one_step: only 'every result is t with >= 1 open leaf expanded by one alternative (fresh open / terminal "
               "children), everything else unchanged' is demanded; the number of results is not")
    rep.exhaustive = False
    _sanity(rep)
    jobs = [(i, fam, spec, hs) for i, (fam, spec, hs) in enumerate(_jobs(tier, seed))]
    with mp.Pool(16) as pool:
        results = pool.map(_worker, jobs, chunksize=8)
    results.sort(key=lambda r: r["idx"])
    fam_counts: Dict[str, int] = {}
    totals: Dict[str, int] = {}
    maxb = 0
    all_viol = []
    for r in results:
        if r.get("timeout"):
            rep.note_inconclusive(f"watchdog: {r['spec']} {r['hseed']}")
            continue
        if r.get("crash"):
            rep.violation(f"history:exception-in-tree-operation:{r['family']}",
                          f"{r['spec']} seed {r['hseed']}: {r['crash'][-400:]}",
                          dict(module=MODULE, case=dict(spec=r["spec"], hseed=r["hseed"])))
            continue
        fam_counts[r["family"]] = fam_counts.get(r["family"], 0) + 1
        for k, v in r["counters"].items():
            if k == "max_branching":
                maxb = max(maxb, v)
            else:
                totals[k] = totals.get(k, 0) + v
        for s in range(r["n_steps"] + 1):
            rep.case(key=(json.dumps(r["spec"]), r["hseed"], s), nontrivial=True,
                     sample=(dict(spec=r["spec"], steps=r["steps"], final=r["final"]) if s == 1 and r["idx"] % 97 == 0 else None))
        for sig, what, step_ in r["violations"]:
            all_viol.append((sig, step_, len(what), r["idx"], what, r["spec"], r["hseed"]))
    # report the smallest witness of every signature first (it becomes the replay file)
    all_viol.sort(key=lambda v: v[:4])
    for sig, _st, _ln, _ix, what, spec, hseed in all_viol:
        rep.violation(sig, what, dict(module=MODULE, case=dict(spec=spec, hseed=hseed, signature=sig)))
    rep.section("families", **fam_counts)
    rep.section("operations", max_branching_reached=maxb, **totals)
    for fam in ("ref", "rand", "wide", "fan"):
        if not fam_counts.get(fam):
            rep.checker_error(f"family {fam} produced zero histories")
    for op in ("replace_path", "replace_path_retain_id", "substitute", "expand_one_step", "new_ids", "parse_tree_round_trip",
               "open_trees", "closed_trees", "deferred_histories"):
        if not totals.get(op):
            rep.checker_error(f"reachability counter {op} is zero")
    if maxb < 40:
        rep.checker_error(f"no tree with a 40-children node was reached (max {maxb})")


def replay(path) -> int:
    case = json.load(open(path))["case"]
    want = case.get("signature")
    try:
        res = run_history(case["spec"], case["hseed"])
    except Exception:
        print("exception while replaying the history:\n" + traceback.format_exc(limit=8))
        return 1
    sigs = sorted({s for s, _, _ in res["violations"]})
    print(f"history {case['spec']} seed {case['hseed']}: steps {res['steps']}")
    for s, w, st in res["violations"][:6]:
        print(f"  step {st}: {s}: {w[-300:]}")
    if want:
        still = want in sigs
        print(f"signature {want}: {'still fails' if still else 'no longer observed'}")
        return 1 if still else 0
    return 1 if sigs else 0
