"""C19 -- exit-code / output contract of the ``isla`` command line (bounded).

``isla.cli.main(*argv, stdout=, stderr=)`` is driven in-process over file sets
in a scratch directory (``SystemExit`` caught -> exit code; any other exception
= uncaught trace-back); 1 case in 20 is repeated as ``/venv/bin/python -m isla``
to compare the real exit status.

Contract (property statement C19):

* ``check``: exit 0 iff the input is in the grammar (``ref_member``) and every
  constraint (``-c`` options and ``.isla`` files, conjunction) holds on its
  derivation tree (``ref_eval``); else 1.
* every line printed by ``solve`` is accepted by ``check``; the JSON printed by
  ``parse`` is accepted by ``check`` (and reads back as a tree of the input);
* malformed grammar / constraint -> 65 and an ``isla <cmd>: error`` message on
  stderr; missing grammar / input (or a file that does not exist) -> 2;
* no command ends with an uncaught trace-back (solve, check, parse, repair,
  mutate), including for an empty and a newline-only input file.
"""
from __future__ import annotations

import io
import json
import multiprocessing as mp
import os
import random
import shutil
import signal
import subprocess
import tempfile
import traceback
from typing import Dict, List, Optional, Tuple

MODULE = "checks.bounded_C19"
PY = "/venv/bin/python"

CLI_GRAMMARS = ["assgn", "rightrec", "num", "multichar", "csvish", "altstart"]
# a line-oriented format: every word ends with a line break (only used for `solve -n 1 > file; check file`)
EXTRA_GRAMMARS = {"nlwords": {"<start>": ["<rec>"], "<rec>": ["<key>=<val>\n"], "<key>": ["a", "b"], "<val>": ["0", "1"]}}

CONSTRAINTS: Dict[str, List[str]] = {
    "assgn": ['exists <var> v: v = "a"', 'forall <digit> d: not (d = "0")', 'count(start, "<assgn>", "2")',
              'forall <assgn> a="{<var> l} := {<rhs> r}" in start: not (l = r)', '<var> = "a"'],
    "rightrec": ['exists <item> i: i = "b"', 'count(start, "<item>", "2")', 'forall <item> i: i = "a"'],
    "num": ['forall <digit> d: not (d = "9")', 'exists <sign> s: s = "-"', 'str.len(<digits>) < 3'],
    "multichar": ['exists <id> i: i = "bar"', 'forall <cond> c: not (c = "false")'],
    "nlwords": ['exists <key> k: k = "b"'],
    "csvish": ['forall <char> c: c = "a"', 'count(start, "<row>", "2")'],
    "altstart": ['exists <key> k: k = "j"', 'forall <val> v: v = "1"'],
}

BAD_GRAMMARS = {
    "grammar-bnf-unterminated-string": ("bnf", '<start> ::= <d>\n<d> ::= "a | "b"\n'),
    "grammar-bnf-missing-definition-sign": ("bnf", '<start> <d>\n<d> ::= "a"\n'),
    "grammar-empty-file": ("bnf", ""),
    "grammar-undefined-nonterminal": ("bnf", '<start> ::= <d>\n<d> ::= "a" | "b" <e>\n'),
    "grammar-without-start": ("bnf", '<s> ::= <d>\n<d> ::= "a" | "b" <d>\n'),
    "grammar-py-wrong-type": ("py", "grammar = 42\n"),
    "grammar-py-syntax-error": ("py", "def grammar(:\n"),
    "grammar-option-syntax-error": ("opt", '<start> ::= '),
    # the same two well-formedness defects delivered through --grammar instead of a file
    "grammar-option-undefined-nonterminal": ("opt", '<start> ::= <d>\n<d> ::= "a" | "b" <e>\n'),
    "grammar-option-without-start": ("opt", '<s> ::= <d>\n<d> ::= "a" | "b" <d>\n'),
}
GOOD_SMALL = '<start> ::= <d>\n<d> ::= "a" | "b" <d>\n'
BAD_CONSTRAINTS = {
    "constraint-syntax-error": 'forall <d> x in start: (x = ',
    "constraint-with-trailing-garbage": 'exists <d> x: x = "a")',
    "constraint-unknown-nonterminal": 'exists <zz> x: x = "a"',
    "constraint-unknown-predicate": 'foo(<d>)',
    "constraint-undeclared-variable": 'x = "a"',
    "constraint-smt-sort-error": 'exists <d> x: (x + 1) = 2',
    "constraint-empty": '',
    # ('const x: <d>; x = "a"' was listed here while every const declaration crashed parse_isla
    #  (F26); it is a well-formed constraint, see DESIGN.md 11.2)
}


# --------------------------------------------------------------------------- #
# running the CLI
# --------------------------------------------------------------------------- #

def run_inproc(argv: List[str]) -> dict:
    from isla import cli
    out, err = io.StringIO(), io.StringIO()
    exc = None
    try:
        cli.main(*argv, stdout=out, stderr=err)
        code = 0
    except SystemExit as e:
        code = e.code if isinstance(e.code, int) else (0 if e.code is None else 1)
    except BaseException as e:  # noqa  -- what the user would see as a trace-back
        if isinstance(e, (TimeoutError, KeyboardInterrupt)) and "watchdog" in str(e):
            raise
        code = None
        exc = f"{type(e).__name__}: {str(e)[:160]}"
        tb = traceback.extract_tb(e.__traceback__)
        where = [f for f in tb if "/src/isla" in f.filename]
        if where:
            exc += f" @ {where[-1].filename.split('/src/')[-1]}:{where[-1].lineno}"
    return dict(code=code, out=out.getvalue(), err=err.getvalue(), exc=exc)


def run_subproc(argv: List[str], cwd: str) -> dict:
    env = dict(os.environ)
    env["PYTHONWARNINGS"] = "ignore"
    try:
        p = subprocess.run([PY, "-m", "isla"] + argv, cwd=cwd, capture_output=True, text=True, timeout=120, env=env)
    except subprocess.TimeoutExpired:
        return dict(code="timeout", out="", err="")
    return dict(code=p.returncode, out=p.stdout, err=p.stderr)


# --------------------------------------------------------------------------- #
# oracle
# --------------------------------------------------------------------------- #

def _json_tree(v):
    """A JSON value that has the shape of a parse tree -> DerivationTree, else None."""
    from isla.derivation_tree import DerivationTree

    def conv(x):
        if not isinstance(x, list) or len(x) != 2 or not isinstance(x[0], str):
            raise ValueError
        if x[1] is None:
            return DerivationTree(x[0], None)
        if not isinstance(x[1], list):
            raise ValueError
        return DerivationTree(x[0], [conv(c) for c in x[1]])
    try:
        return conv(v)
    except ValueError:
        return None


def expected_check(gname: str, constraints: List[str], inp: str) -> Tuple[Optional[int], str]:
    """-> (expected exit code or None when the oracle does not judge, situation class)"""
    from bounded.grammars import GRAMMARS
    from bounded.reftree import ref_member, ref_count_parses, all_trees_from_string, ref_valid, ref_open
    from bounded.refeval import ref_eval_ex, parse_formula, OracleUndecided, OracleUnsupported
    g = GRAMMARS[gname]
    tree = None
    situation = None
    try:
        v = json.loads(inp)
        t = _json_tree(v)
        if t is not None and ref_valid(g, t, "<start>"):
            if ref_open(t):
                return None, "json-open-tree"
            tree, situation = t, "json-tree"
        elif t is not None:
            situation = "json-tree-not-valid-for-grammar"
        else:
            situation = "input-is-json-but-not-a-tree"
    except ValueError:
        pass
    trees = [tree] if tree is not None else None
    if trees is None:
        if not ref_member(g, inp, "<start>"):
            return 1, situation or ("empty-input-not-in-grammar" if inp == "" else "input-not-in-grammar")
        trees = all_trees_from_string(g, inp, "<start>", limit=4, eps_style="empty")
        situation = situation or "input-in-grammar"
    verdicts = []
    for t in trees:
        ok = True
        for c in constraints:
            try:
                val, exact = ref_eval_ex(parse_formula(c, g), t, g)
            except (OracleUndecided, OracleUnsupported):
                return None, situation
            if not exact:
                return None, situation
            ok = ok and val
        verdicts.append(ok)
    if len(set(verdicts)) != 1:
        return None, situation + "-ambiguous"
    return (0 if verdicts[0] else 1), situation + ("" if verdicts[0] else "-violating-constraint")


# --------------------------------------------------------------------------- #
# case construction
# --------------------------------------------------------------------------- #

def _strings(gname: str, rng: random.Random, n_valid: int, n_invalid: int) -> Tuple[List[str], List[str]]:
    from bounded.grammars import GRAMMARS, ENUM_NODES
    from bounded.reftree import ref_tree_structs, from_struct, ref_str, ref_member
    from bounded.grammars import terminals_chars
    g = GRAMMARS[gname]
    seen, valid = set(), []
    for st in ref_tree_structs(g, "<start>", min(ENUM_NODES[gname] + 6, 24), eps_style="empty"):
        s = ref_str(from_struct(st))
        if s not in seen:
            seen.add(s)
            valid.append(s)
        if len(valid) >= 400:
            break
    head = valid[:3]
    rest = valid[3:]
    rng.shuffle(rest)
    valid = head + rest[: max(0, n_valid - 3)]
    chars = terminals_chars(g) + ["x", "#"]
    invalid = []
    tries = 0
    while len(invalid) < n_invalid and tries < 200:
        tries += 1
        s = rng.choice(valid) if valid else ""
        k = rng.randrange(3)
        pos = rng.randrange(len(s) + 1)
        if k == 0 and s:
            s2 = s[:pos] + s[pos + 1:]
        elif k == 1:
            s2 = s[:pos] + rng.choice(chars) + s[pos:]
        else:
            s2 = s[:pos] + rng.choice(chars) + s[pos + 1:]
        if s2 and not ref_member(g, s2, "<start>") and s2 not in invalid:
            try:
                json.loads(s2)
            except ValueError:
                invalid.append(s2)
    return valid, invalid


def _tree_json(gname: str, s: str) -> str:
    from bounded.grammars import GRAMMARS
    from bounded.reftree import tree_from_string, to_struct

    def conv(st):
        return [st[0], None if st[1] is None else [conv(c) for c in st[1]]]
    return json.dumps(conv(to_struct(tree_from_string(GRAMMARS[gname], s, "<start>", eps_style="empty"))))


def make_cases(tier: str, seed: int) -> List[dict]:
    quick = tier == "quick"
    rng = random.Random(f"C19:{seed}:{tier}")
    cases: List[dict] = []
    gmodes = ["bnf", "opt", "py"]
    for gname in CLI_GRAMMARS:
        valid, invalid = _strings(gname, rng, 8 if quick else 30, 4 if quick else 15)
        cons = CONSTRAINTS[gname]
        inputs: List[Tuple[str, str, str]] = []  # (mode, text, label)
        for i, s in enumerate(valid):
            inputs.append(("opt" if i % 2 == 0 and s != "" else "file" if i % 4 == 1 else "file-nl", s, "member"))
        for i, s in enumerate(invalid):
            inputs.append(("opt" if i % 2 else "file-nl", s, "non-member"))
        inputs.append(("file", "", "empty-file"))
        inputs.append(("file", "\n", "newline-only-file"))
        inputs.append(("opt", _tree_json(gname, valid[1 % len(valid)]), "json-tree"))
        inputs.append(("file-nl", _tree_json(gname, valid[-1]), "json-tree"))
        inputs.append(("opt", '["<start>", [["<nope>", [["q", []]]]]]', "json-tree-invalid"))
        inputs.append(("opt", '["<start>", null]', "json-open-tree"))
        inputs.append(("opt", "[]", "json-non-tree"))
        inputs.append(("opt", "12", "json-scalar"))
        if gname == "num":
            inputs.append(("file-nl", "2", "json-scalar-member"))
        # constraint deliveries
        cmodes = [("c1", [cons[0]], []), ("c2", [cons[0], cons[1]], []), ("f1", [], [cons[-1]]),
                  ("f1c1", [cons[1 % len(cons)]], [cons[0]]), ("true", ["true"], [])]
        for ci, c in enumerate(cons[2:]):
            cmodes.append((f"c1x{ci}", [c], []))
        k = 0
        for (imode, text, label) in inputs:
            for (cm, copts, cfiles) in cmodes:
                gm = gmodes[k % 3]
                k += 1
                if not quick or label != "member" or k % 2 == 0 or cm in ("c1", "f1"):
                    cases.append(dict(cmd="check", gname=gname, gmode=gm, copts=copts, cfiles=cfiles, imode=imode, input=text,
                                      label=label))
        # parse: JSON out -> check
        for i, s in enumerate(valid[:4] + invalid[:1] + [""]):
            cases.append(dict(cmd="parse", gname=gname, gmode=gmodes[i % 3], copts=[cons[0]] if i % 2 else ["true"], cfiles=[],
                              imode="opt" if (i % 2 == 0 and s) else "file-nl", input=s, label="member" if s in valid else "other"))
        # solve
        for ci, c in enumerate((cons[:2] if quick else cons) + ["true"]):
            cases.append(dict(cmd="solve", gname=gname, gmode=gmodes[ci % 3], copts=[c] if ci % 2 == 0 else [], cfiles=[] if ci % 2 == 0 else [c],
                              imode=None, input=None, label="solve", outdir=(gname == "csvish")))
        # repair / mutate
        for i, s in enumerate(valid[:3] + invalid[:1] + [""]):
            for cmd in ("repair", "mutate"):
                cases.append(dict(cmd=cmd, gname=gname, gmode=gmodes[i % 3], copts=[cons[i % 2]], cfiles=[],
                                  imode="opt" if (i % 2 == 0 and s) else "file", input=s,
                                  label="member" if s in valid else ("empty-file" if s == "" else "non-member")))
    for gi, gname in enumerate(CLI_GRAMMARS + ["nlwords"]):
        cons = CONSTRAINTS[gname]
        cases.append(dict(cmd="solve", gname=gname, gmode=gmodes[gi % 3], copts=[cons[0]], cfiles=[], imode=None, input=None,
                          label="solve-single", single=True))
    # defects: one per case
    for cmd in ("check", "parse", "solve", "repair", "mutate"):
        needs_input = cmd != "solve"
        for name, (kind, text) in BAD_GRAMMARS.items():
            cases.append(dict(cmd=cmd, defect=name, badg=(kind, text), copts=["true"], cfiles=[], imode="opt" if needs_input else None,
                              input="ba" if needs_input else None, label=name))
        for j, (name, text) in enumerate(BAD_CONSTRAINTS.items()):
            as_file = j % 2 == 1 or text == ""
            cases.append(dict(cmd=cmd, defect=name, goodg=True, copts=[] if as_file else [text], cfiles=[text] if as_file else [],
                              imode="opt" if needs_input else None, input="ba" if needs_input else None, label=name))
        cases.append(dict(cmd=cmd, defect="grammar-missing", nog=True, copts=["true"], cfiles=[], imode="opt" if needs_input else None,
                          input="ba" if needs_input else None, label="grammar-missing"))
        cases.append(dict(cmd=cmd, defect="grammar-missing", nog=True, copts=[], cfiles=['exists <d> x: x = "a"'],
                          imode="file" if needs_input else None, input="ba" if needs_input else None, label="grammar-missing"))
        cases.append(dict(cmd=cmd, defect="file-not-found", goodg=True, missing_file="nope.isla", copts=["true"], cfiles=[],
                          imode="opt" if needs_input else None, input="ba" if needs_input else None, label="file-not-found"))
        if needs_input:
            cases.append(dict(cmd=cmd, defect="input-missing", goodg=True, copts=["true"], cfiles=[], imode=None, input=None, label="input-missing"))
            cases.append(dict(cmd=cmd, defect="input-missing", goodg=True, copts=[], cfiles=['exists <d> x: x = "a"'], imode=None, input=None,
                              label="input-missing"))
            cases.append(dict(cmd=cmd, defect="two-input-files", goodg=True, copts=["true"], cfiles=[], imode="two-files", input="ba",
                              label="two-input-files"))
    for i, c in enumerate(cases):
        c["idx"] = i
        c["subprocess"] = (i % 20 == 7)
    return cases


# --------------------------------------------------------------------------- #
# one case
# --------------------------------------------------------------------------- #

def _write(tmp, name, text):
    path = os.path.join(tmp, name)
    with open(path, "w", encoding="utf-8", newline="") as fh:
        fh.write(text)
    return path


def _input_option(inp: str) -> List[str]:
    """argparse reads a value that starts with '-' as an option, so such inputs are attached with '='."""
    return [f"--input-string={inp}"] if inp.startswith("-") else ["-i", inp]


def build_argv(case: dict, tmp: str) -> Tuple[List[str], Optional[str]]:
    from bounded.grammars import GRAMMARS
    from bounded.c19_files import grammar_to_bnf, grammar_to_python
    opts: List[str] = []
    files: List[str] = []
    outdir = None
    if case.get("nog"):
        pass
    elif case.get("badg"):
        kind, text = case["badg"]
        if kind == "opt":
            opts += ["--grammar", text]
        else:
            files.append(_write(tmp, "g." + kind, text))
    elif case.get("goodg"):
        files.append(_write(tmp, "g.bnf", GOOD_SMALL))
    else:
        g = {**GRAMMARS, **EXTRA_GRAMMARS}[case["gname"]]
        if case["gmode"] == "bnf":
            files.append(_write(tmp, "g.bnf", grammar_to_bnf(g, semicolons=case["idx"] % 2 == 0)))
        elif case["gmode"] == "opt":
            opts += ["-g", grammar_to_bnf(g)]
        else:
            files.append(_write(tmp, "g.py", grammar_to_python(g, as_function=case["idx"] % 2 == 0)))
    for c in case["copts"]:
        opts += ["-c", c]
    for i, c in enumerate(case["cfiles"]):
        files.append(_write(tmp, f"c{i}.isla", c))
    if case.get("missing_file"):
        files.append(os.path.join(tmp, case["missing_file"]))
    im = case.get("imode")
    if im == "opt":
        opts += _input_option(case["input"])
    elif im == "file":
        files.append(_write(tmp, "input.txt", case["input"]))
    elif im == "file-nl":
        files.append(_write(tmp, "input.txt", case["input"] + "\n"))
    elif im == "two-files":
        files.append(_write(tmp, "input.txt", case["input"]))
        files.append(_write(tmp, "input2.txt", case["input"]))
    cmd = case["cmd"]
    if cmd == "solve":
        opts += ["-n", "1" if case.get("single") else "5", "-t", "15"]
        if case.get("outdir"):
            outdir = os.path.join(tmp, "out")
            os.mkdir(outdir)
            opts += ["-d", outdir]
    elif cmd in ("repair", "mutate"):
        opts += ["-t", "3"]
    return [cmd] + opts + files, outdir


def effective_input(case: dict) -> Optional[str]:
    """The input as the CLI is documented to read it: an input FILE loses one trailing newline."""
    im = case.get("imode")
    if im is None:
        return None
    if im == "opt":
        return case["input"]
    content = case["input"] + ("\n" if im == "file-nl" else "")
    return content[:-1] if content.endswith("\n") else content


def _has_error_message(err: str) -> bool:
    return "error" in err.lower() and bool(err.strip())


def run_case(case: dict) -> dict:
    tmp = tempfile.mkdtemp(prefix="c19_")
    viol: List[Tuple[str, str]] = []
    info: Dict[str, int] = {}
    try:
        argv, outdir = build_argv(case, tmp)
        shown = [a if len(a) < 70 else a[:67] + "..." for a in argv]
        shown = [a.replace(tmp + "/", "") for a in shown]
        cmd = case["cmd"]
        random.seed(case["idx"])
        r = run_inproc(argv)
        code = r["code"]
        desc = f"isla {' '.join(repr(a) for a in shown)}"
        if case.get("imode") in ("file", "file-nl"):
            desc += f" [input.txt={(case['input'] + (chr(10) if case['imode'] == 'file-nl' else ''))!r:.60}]"
        label = case["label"]
        situation = label
        expected = None
        # ---- no uncaught trace-back
        defect = case.get("defect")
        if cmd in ("check", "parse", "repair", "mutate") and not defect:
            inp = effective_input(case)
            expected, situation = expected_check(case["gname"], case["copts"] + case["cfiles"], inp)
        group = "solve" if cmd == "solve" else "check|parse|repair|mutate"
        if r["exc"] is not None:
            sit = situation.replace("-violating-constraint", "")
            ename = r["exc"].split(":")[0]
            if "safe()" in r["exc"]:
                # repair()/mutate() call returns.result.safe with a signature the installed `returns` does not have
                sig = f"{cmd}:uncaught-TypeError:safe()-call-incompatible-with-installed-returns-package"
            elif sit.startswith(("input-is-json", "json-")):
                sig = f"{group}:{sit}:uncaught-{ename}"      # shared code path cli.get_input_string
            elif defect:
                sig = f"{group}:{sit}:uncaught-{ename}"
            else:
                sig = f"{cmd}:{sit}:uncaught-{ename}"
            viol.append((sig, f"{desc}: uncaught {r['exc']}"))
        if defect:
            if defect in ("grammar-missing", "input-missing", "file-not-found", "two-input-files"):
                expected = 2
            else:
                expected = 65
            if code is not None and code != expected:
                viol.append((f"{group}:{defect}:exit-{code}-instead-of-{expected}",
                             f"{desc}: exit {code}, stdout {r['out'][-80:]!r}, stderr {r['err'][-120:]!r}"))
            elif code == 65 and not _has_error_message(r["err"]):
                viol.append((f"{group}:{defect}:exit-65-without-error-message", f"{desc}: stderr {r['err']!r:.100}"))
        elif cmd in ("check", "parse"):
            info[f"expected_{expected}"] = 1
            if expected is not None and code is not None and code != expected:
                viol.append((f"{cmd}:{situation}:exit-{code}-instead-of-{expected}",
                             f"{desc}: exit {code} ({r['out'].strip()[-60:]!r}), expected {expected}"))
            if code is not None and code not in (0, 1):
                if expected is None:
                    viol.append((f"{cmd}:{situation}:exit-{code}-for-wellformed-arguments", f"{desc}: stderr {r['err'][-120:]!r}"))
            if cmd == "parse" and code == 0:
                viol += _parse_followup(case, r["out"], inp, tmp, desc, info)
        elif cmd == "solve":
            if code is not None and code != 0:
                viol.append((f"solve:wellformed-arguments:exit-{code}", f"{desc}: stderr {r['err'][-160:]!r}"))
            elif code == 0:
                viol += _solve_followup(case, r["out"], outdir, tmp, desc, info)
        else:  # repair / mutate: exit status 0 or 1, never anything else
            if code is not None and code not in (0, 1):
                viol.append((f"{cmd}:{situation}:exit-{code}-for-wellformed-arguments", f"{desc}: stderr {r['err'][-120:]!r}"))
            info[f"{cmd}_exit_{code}"] = 1
            expected = None
        # ---- the real process agrees
        if case.get("subprocess"):
            sp = run_subproc(argv, tmp)
            info["subprocess_runs"] = 1
            if sp["code"] == "timeout":
                info["subprocess_timeouts"] = 1
            else:
                tb = "Traceback (most recent call last)" in sp["err"]
                if tb and r["exc"] is None:
                    if "safe()" in sp["err"]:
                        viol.append((f"{cmd}:uncaught-TypeError:safe()-call-incompatible-with-installed-returns-package",
                                     f"{desc} (as python -m isla): {sp['err'][-200:]!r}"))
                    else:
                        viol.append((f"{cmd}:{label}:subprocess-prints-traceback", f"{desc}: {sp['err'][-200:]!r}"))
                if r["exc"] is None and sp["code"] != code and not (cmd == "mutate" and tb):
                    viol.append((f"{cmd}:{label}:subprocess-exit-status-differs-from-in-process",
                                 f"{desc}: python -m isla exits {sp['code']}, cli.main gives {code}"))
                if r["exc"] is not None and cmd == "mutate" and not tb:
                    # mutate picks its mutation operators at random; the fresh process took another path
                    info["mutate_subprocess_took_another_random_path"] = 1
                elif r["exc"] is not None and not (tb and sp["code"] not in (0, 2, 65)):
                    viol.append(("HARNESS", f"{desc}: in-process exception {r['exc']} but subprocess exit {sp['code']} traceback={tb}"))
        return dict(idx=case["idx"], viol=viol, info=info, code=code, expected=expected, situation=situation, argv=shown,
                    exc=r["exc"])
    finally:
        shutil.rmtree(tmp, ignore_errors=True)


def _gargs(case: dict, tmp: str) -> List[str]:
    """grammar + constraint arguments of the case again (files still exist)"""
    argv, _ = build_argv(dict(case, imode=None, cmd="check", outdir=False), tmp)
    return argv[1:]


def _parse_followup(case, out, inp, tmp, desc, info) -> List[Tuple[str, str]]:
    from isla.derivation_tree import DerivationTree
    from bounded.grammars import GRAMMARS
    from bounded.reftree import ref_valid, ref_str, ref_open
    v = []
    g = GRAMMARS[case["gname"]]
    try:
        t = DerivationTree.from_parse_tree(json.loads(out))
    except Exception as exc:  # noqa
        return [(f"parse:stdout-is-not-a-json-tree:{type(exc).__name__}", f"{desc}: stdout {out[:100]!r}")]
    info["parse_json_read_back"] = 1
    if ref_open(t) or not ref_valid(g, t, "<start>"):
        v.append(("parse:json-output-is-not-a-closed-grammar-tree", f"{desc}: {out[:120]!r}"))
    else:
        try:
            was_tree = _json_tree(json.loads(inp)) is not None
        except ValueError:
            was_tree = False
        if not was_tree and ref_str(t) != inp:
            v.append(("parse:json-output-tree-has-a-different-string", f"{desc}: {ref_str(t)!r} vs input {inp!r}"))
    r2 = run_inproc(["check"] + _split_for_i(_gargs(case, tmp), out.strip()))
    if r2["exc"] is not None:
        v.append((f"parse-then-check:check-uncaught-{r2['exc'].split(':')[0]}", f"{desc}: check -i <parse output>: {r2['exc']}"))
    elif r2["code"] != 0:
        v.append((f"parse-then-check:check-rejects-parse-output:exit-{r2['code']}", f"{desc}: check -i {out.strip()[:80]!r} -> {r2['code']} {r2['out'].strip()!r}"))
    else:
        info["parse_output_accepted_by_check"] = 1
    return v


def _split_for_i(gargs: List[str], inp: str) -> List[str]:
    """options first, then files: insert -i before the first file argument"""
    k = len(gargs)
    for i, a in enumerate(gargs):
        if a.startswith("/") and os.path.exists(a):
            k = i
            break
    return gargs[:k] + _input_option(inp) + gargs[k:]


def _solve_followup(case, out, outdir, tmp, desc, info) -> List[Tuple[str, str]]:
    v = []
    if case.get("single"):
        # `isla solve -n 1 > file; isla check file`: the printed output of one solution (the word plus print's line
        # end) is an input file that check must accept, whatever characters the word ends with
        if out == "":
            info["solve_without_output"] = 1
            return v
        info["solve_outputs"] = 1
        argv = ["check"] + _gargs(case, tmp) + [_write(tmp, "printed.txt", out)]
        r2 = run_inproc(argv)
        if r2["exc"] is not None:
            v.append((f"solve-then-check:printed-output-as-file:check-uncaught-{r2['exc'].split(':')[0]}",
                      f"{desc}: printed {out!r:.60}; check: {r2['exc']}"))
        elif r2["code"] != 0:
            v.append((f"solve-then-check:printed-output-as-file:check-rejects-printed-solution:exit-{r2['code']}",
                      f"{desc}: printed {out!r:.60} saved to a file; check -> {r2['code']} {r2['out'].strip()!r}"))
        else:
            info["solve_outputs_accepted_by_check"] = info.get("solve_outputs_accepted_by_check", 0) + 1
        return v
    if outdir:
        sols = []
        for name in sorted(os.listdir(outdir)):
            with open(os.path.join(outdir, name), encoding="utf-8", newline="") as fh:
                sols.append(fh.read())
    else:
        sols = out.split("\n")
        if sols and sols[-1] == "":
            sols = sols[:-1]
    info["solve_outputs"] = len(sols)
    if not sols:
        info["solve_without_output"] = 1
    for s in sols:
        if s == "":
            argv = ["check"] + _gargs(case, tmp) + [_write(tmp, "sol.txt", "")]
        else:
            argv = ["check"] + _split_for_i(_gargs(case, tmp), s)
        r2 = run_inproc(argv)
        try:
            json.loads(s)
            cls = "solution-that-is-also-json"
        except ValueError:
            cls = "solution"
        if r2["exc"] is not None:
            v.append((f"solve-then-check:{cls}:check-uncaught-{r2['exc'].split(':')[0]}", f"{desc}: printed {s!r:.60}; check: {r2['exc']}"))
        elif r2["code"] != 0:
            v.append((f"solve-then-check:{cls}:check-rejects-printed-solution:exit-{r2['code']}",
                      f"{desc}: printed {s!r:.60}; check -> {r2['code']} {r2['out'].strip()!r}"))
        else:
            info["solve_outputs_accepted_by_check"] = info.get("solve_outputs_accepted_by_check", 0) + 1
    return v


# --------------------------------------------------------------------------- #
# worker / run
# --------------------------------------------------------------------------- #

def _alarm(_s, _f):
    raise TimeoutError("watchdog")


def _worker(case):
    signal.signal(signal.SIGALRM, _alarm)
    signal.alarm(240)
    try:
        return run_case(case)
    except TimeoutError:
        return dict(idx=case["idx"], timeout=True)
    except Exception:
        return dict(idx=case["idx"], crash=traceback.format_exc(limit=8))
    finally:
        signal.alarm(0)


def _init():
    import warnings
    warnings.filterwarnings("ignore")
    import logging
    logging.disable(logging.CRITICAL)


def run(rep, tier, seed):
    rep.rule("case = one invocation of cli.main(cmd, options..., files...) on a fresh scratch directory: 6 fixed grammars (as .bnf file, "
             "--grammar text, .py file) x constraint deliveries (-c once/twice, .isla file, file plus -c, 'true') x inputs (members, "
             "non-members, empty file, newline-only file, JSON tree of a member, JSON tree of another grammar, open JSON tree, JSON "
             "non-tree, JSON scalar) for check; parse/solve/repair/mutate on subsets; one defect per defect case (10 malformed grammars, "
             "8 malformed constraints, missing grammar, missing input, two inputs, nonexistent file) x 5 commands; a case is non-trivial "
             "when the oracle fixes the expected exit status or the command is followed up (parse -> check, solve -> check)")
    rep.bound("input strings from ref_trees with <= 24 nodes; <= 5 solutions per solve call (-t 15); repair/mutate with -t 3; "
              "1 case in 20 repeated through `python -m isla`")
    rep.assume("oracle: bounded.reftree.ref_member / all_trees_from_string and bounded.refeval.ref_eval_ex (exact verdicts only; "
               "ambiguous inputs are judged only when all their trees agree)")
    rep.assume("inputs that start with '-' are passed as --input-string=VALUE (argparse convention)")
    rep.assume("all FILES are passed contiguously after the options (argparse does not accept positional arguments on both sides "
               "of an option)")
    rep.assume("an input FILE loses one trailing newline (cli.get_input_string comment 'spurious newlines appear when reading files'); "
               "files whose content ends in a newline are therefore judged on the content without it")
    rep.assume("grammars are written in BNF by bounded/c19_files.py; grammars with '<' or '>' inside terminals are not used, because "
               "ISLa's BNF reader introduces helper nonterminals for them (C11's subject)")
    rep.assume("a JSON input that is a closed, grammar-valid tree rooted in <start> is judged as that tree (docstring of "
               "get_input_string); an OPEN JSON tree is not judged (recorded as json-open-tree); any other JSON text is judged as a string")
    rep.assume("'malformed grammar' includes a grammar that uses an undefined nonterminal or lacks <start> (separate signatures)")
    rep.assume("repair/mutate: only 'exit status 0 or 1, no trace-back' is demanded for well-formed arguments (their results are C18's subject)")
    rep.exhaustive = False
    cases = make_cases(tier, seed)
    with mp.Pool(16, initializer=_init) as pool:
        results = pool.map(_worker, cases, chunksize=2)
    results.sort(key=lambda r: r["idx"])
    viol = []
    counts: Dict[str, int] = {}
    per_cmd: Dict[str, int] = {}
    for r, case in zip(results, cases):
        if r.get("timeout"):
            rep.note_inconclusive(f"watchdog: {case['cmd']} {case.get('gname')} {case['label']}")
            continue
        if r.get("crash"):
            rep.checker_error(f"harness crashed on case {case['idx']} {case['cmd']} {case['label']}: {r['crash'][-400:]}")
            continue
        nontrivial = bool(case.get("defect")) or r["expected"] is not None or case["cmd"] in ("solve", "parse") or r["exc"] is not None
        rep.case(key=(case["cmd"], " ".join(r["argv"]), case.get("input"), case.get("imode")), nontrivial=nontrivial,
                 sample=dict(argv=r["argv"], exit=r["code"], expected=r["expected"], situation=r["situation"]) if case["idx"] % 173 == 0 else None)
        per_cmd[case["cmd"]] = per_cmd.get(case["cmd"], 0) + 1
        for k, v in r["info"].items():
            counts[k] = counts.get(k, 0) + v
        counts[f"exit_{r['code']}"] = counts.get(f"exit_{r['code']}", 0) + 1
        for sig, what in r["viol"]:
            if sig == "HARNESS":
                rep.checker_error(what)
            else:
                viol.append((sig, len(what), what, dict(case=case, signature=sig)))
    viol.sort(key=lambda v: (v[0], v[1], v[2]))
    for sig, _n, what, payload in viol:
        rep.violation(sig, what, dict(module=MODULE, case=payload))
    rep.section("commands", **per_cmd)
    rep.section("outcomes", **counts)
    for k in ("expected_0", "expected_1", "parse_output_accepted_by_check", "solve_outputs_accepted_by_check", "subprocess_runs",
              "exit_65", "exit_2"):
        if not counts.get(k):
            rep.checker_error(f"reachability counter {k} is zero")
    for cmd in ("check", "parse", "solve", "repair", "mutate"):
        if not per_cmd.get(cmd):
            rep.checker_error(f"no case for command {cmd}")
    # sanity: verdict known by construction (islaspec example language)
    e, _ = expected_check("assgn", ['exists <var> v: v = "a"'], "a := 1")
    e2, _ = expected_check("assgn", ['exists <var> v: v = "a"'], "b := 1")
    e3, _ = expected_check("assgn", ["true"], "a := ")
    if (e, e2, e3) != (0, 1, 1):
        rep.checker_error(f"sanity: oracle verdicts for the assignment language are {(e, e2, e3)}, expected (0, 1, 1)")
    rep.case(key="sanity", nontrivial=True)


def replay(path) -> int:
    import warnings
    warnings.filterwarnings("ignore")
    payload = json.load(open(path))["case"]
    case, want = payload["case"], payload.get("signature")
    r = run_case(dict(case, subprocess=True))
    print(f"isla {' '.join(r['argv'])} -> exit {r['code']} (oracle expects {r['expected']}; situation {r['situation']}; exception {r['exc']})")
    for s, w in r["viol"]:
        print(f"  {s}: {w[:300]}")
    sigs = {s for s, _ in r["viol"]}
    still = (want in sigs) if want else bool(sigs)
    print("still fails" if still else "no longer fails")
    return 1 if still else 0
