"""C02 -- solve() exception contract. Proved (AST): call shape of all dispatch chains on the solve path (an operator without fast path falls back to Z3 instead of raising TypeError). Bounded: exception set and stickiness over call histories."""
from vlib.harness import proved_tier
from checks import bounded_C02

LEVEL = "other"


def run(rep, tier, seed):
    from checks import syntactic
    syntactic.run(rep, "C02")
    proved_tier(rep, "C02", seed, expected_min_obligations=8)
    rep.assume("C02 proved part: only the exhausted path (loop not entered) and the timeout path (first iteration) of "
               "solve() are verified; int(time.time()) is modelled as an integer clock that never decreases")
    bounded_C02.run(rep, tier, seed)


def replay(path):
    import json
    d = json.load(open(path))
    if d.get("module", "").startswith("checks.bounded_") or "case" in d:
        return bounded_C02.replay(path)
    from vlib.harness import replay_file
    return replay_file(path)
