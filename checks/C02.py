"""C02 -- solve() exception contract. Proved (AST): call shape of all dispatch chains on the solve path (an operator without fast path falls back to Z3 instead of raising TypeError). Bounded: exception set and stickiness over call histories."""
from vlib.harness import proved_tier
from checks import bounded_C02

LEVEL = "other"


def run(rep, tier, seed):
    from checks import syntactic
    syntactic.run(rep, "C02")
    bounded_C02.run(rep, tier, seed)


def replay(path):
    import json
    d = json.load(open(path))
    if d.get("module", "").startswith("checks.bounded_") or "case" in d:
        return bounded_C02.replay(path)
    from vlib.harness import replay_file
    return replay_file(path)
