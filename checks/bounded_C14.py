"""C14 (bounded) -- trees built to a target.

Contracts (property statement):

 (a) r = create_fixed_length_tree(N, canonical(G), n):
       r is None, or ref_valid(G, r, N) and not ref_open(r) and len(ref_str(r)) == n.
     (None although L(N) has a word of length n is recorded in
      sections.fixed_length.none_although_exists -- the statement is about what is
      returned.)

 (b) res = count(graph, t, needle, num).result
       dict {t: t2}  ("count completion"):
           the key is t; ref_valid(G, t2, t.value);
           count_occurrences(t2, needle) == num;
           no open leaf of t2 from which a further needle node can be derived
           (own reachability closure over G);
           every id of t occurs in t2 with the same label.
       True:  count_occurrences(t, needle) == num and no open leaf can still
              produce a needle.
       dict {num-variable: numeral}: the numeral is count_occurrences(t, needle)
              and no open leaf can still produce a needle.
       False / None: nothing is demanded (False after a failed search is
              recorded in sections.count.false_after_search).

Oracles: bounded.reftree (ref_valid, ref_open, ref_str, ref_paths),
bounded.refeval.count_occurrences, bounded.c10_common.reach_plus (own closure).
"""
from __future__ import annotations

import random
import traceback
from typing import Dict, List, Optional, Tuple

from bounded import grammars as BG
from bounded.c10_common import (
    Watchdog,
    fresh_ids_above,
    ids_of,
    load_replay,
    reach_plus,
    run_pool,
    show,
    tree_from_json,
    tree_to_json,
    watchdog,
)
from bounded.refeval import count_occurrences
from bounded.reftree import (
    from_struct,
    ref_open,
    ref_paths,
    ref_str,
    ref_tree_structs,
    ref_valid,
    rules_of,
)

MODULE = "checks.bounded_C14"
FIXED_WATCHDOG = 6
COUNT_WATCHDOG = 4

EXTRA_GRAMMARS: Dict[str, Dict[str, List[str]]] = {
    "allnull": {"<start>": ["<A><B>"], "<A>": ["", "a"], "<B>": ["", "b<B>"]},
    "evenlen": {"<start>": ["<E>"], "<E>": ["", "ab<E>", "<E>cd"]},
    "multilen": {"<start>": ["<K><K>"], "<K>": ["x", "yy", "zzz", "<K>-"]},
    "midrec": {"<start>": ["<A>"], "<A>": ["(<A>)", "<A><A>x", "y"]},
    "needleonly": {"<start>": ["<L>"], "<L>": ["<I>", "<I>;<L>"], "<I>": ["<N>", "(<L>)"], "<N>": ["1", "2"]},
}


def canonical_of(grammar) -> Dict[str, List[List[str]]]:
    return {nt: [list(alt) for alt in alts] for nt, alts in rules_of(grammar).items()}


_GRAPHS: Dict[str, object] = {}


def graph_of(grammar):
    from grammar_graph import gg

    key = repr(grammar)
    if key not in _GRAPHS:
        _GRAPHS[key] = gg.GrammarGraph.from_grammar(grammar)
    return _GRAPHS[key]


def raised_in(exc: BaseException) -> Tuple[str, str]:
    fn, line = "?", ""
    for fs in traceback.extract_tb(exc.__traceback__):
        if "/isla/" in fs.filename and "/verif/" not in fs.filename:
            fn, line = fs.name, fs.line or ""
    return fn, line


# --------------------------------------------------------------------------- #
# own analyses
# --------------------------------------------------------------------------- #


def possible_lengths(grammar, max_len: int) -> Dict[str, List[int]]:
    """Lengths <= max_len of the words of every nonterminal (least fixed point)."""
    rules = rules_of(grammar)
    lens: Dict[str, set] = {nt: set() for nt in rules}
    changed = True
    while changed:
        changed = False
        for nt, alts in rules.items():
            for alt in alts:
                acc = {0}
                for sym in alt:
                    opts = lens[sym] if sym in rules else {len(sym)}
                    acc = {a + b for a in acc for b in opts if a + b <= max_len}
                    if not acc:
                        break
                new = acc - lens[nt]
                if new:
                    lens[nt] |= new
                    changed = True
    return {nt: sorted(v) for nt, v in lens.items()}


def leaves_reaching(grammar, t, needle: str) -> List[str]:
    """Open leaves of t from which a (further) needle node can be derived."""
    reach = reach_plus(grammar)
    return [n.value for _, n in ref_paths(t) if n.children is None and needle in reach.get(n.value, ())]


# --------------------------------------------------------------------------- #
# (a) create_fixed_length_tree
# --------------------------------------------------------------------------- #


def check_fixed(grammar, nt: str, n: int, seed: int, as_tree: bool = False) -> Tuple[List[dict], str]:
    """-> (failures, outcome in {'tree', 'none'})"""
    from isla.derivation_tree import DerivationTree
    from isla.solver import create_fixed_length_tree

    fails: List[dict] = []
    nullable = nt in BG.nullable_nonterminals(grammar)
    cls = "nullable-nonterminal" if nullable else "plain"

    def fail(kind: str, detail: str):
        fails.append(dict(
            signature=f"create_fixed_length_tree:{kind}:{cls}",
            what=f"grammar={grammar!r} start={nt} target_length={n} seed={seed}: {detail}",
            case=dict(family="fixed", grammar=grammar, nt=nt, n=n, seed=seed, as_tree=as_tree),
            size=(n, len(repr(grammar)))))

    random.seed(seed)
    try:
        start = DerivationTree(nt, None) if as_tree else nt
        r = create_fixed_length_tree(start, canonical_of(grammar), n)
    except Watchdog:
        raise
    except BaseException as exc:  # noqa
        fn, _ = raised_in(exc)
        fail(f"raises-{type(exc).__name__}@{fn}", f"{type(exc).__name__}: {str(exc)[:100]}")
        return fails, "error"
    if r is None:
        return fails, "none"
    if r.value != nt:
        fail("wrong-root", f"result {show(r)} is rooted in {r.value}")
    elif ref_open(r):
        fail("result-open", f"result {show(r)} has an open leaf")
    elif not ref_valid(grammar, r, nt):
        fail("result-invalid", f"result {show(r)} is no derivation tree of G")
    elif len(ref_str(r)) != n:
        fail("wrong-length", f"result {show(r)} spells {ref_str(r)!r} of length {len(ref_str(r))}")
    return fails, "tree"


# --------------------------------------------------------------------------- #
# (b) count
# --------------------------------------------------------------------------- #


def make_num(kind: str, k: int):
    from isla.derivation_tree import DerivationTree

    if kind == "str":
        return str(k)
    if kind == "tree-closed":
        return DerivationTree(str(k), ())
    if kind == "tree-open":  # the shape count() itself creates for numerals
        return DerivationTree(str(k), None)
    if kind == "variable":
        from isla.language import BoundVariable

        return BoundVariable("n", "NUM")
    raise ValueError(kind)


def check_count(grammar, t, needle: str, k: int, num_kind: str = "str") -> Tuple[List[dict], str]:
    """-> (failures, outcome)"""
    from isla.isla_predicates import count

    fails: List[dict] = []
    eps_child = any(n.value == "" for _, n in ref_paths(t))

    def fail(kind: str, detail: str, cls: Optional[str] = None):
        fails.append(dict(
            signature=f"count:{kind}:{cls or ('open-tree' if ref_open(t) else 'closed-tree')}",
            what=f"grammar={grammar!r} tree={show(t)} needle={needle} num={k} ({num_kind}): {detail}",
            case=dict(family="count", grammar=grammar, tree=tree_to_json(t), needle=needle, k=k,
                      num_kind=num_kind),
            size=(len(ref_paths(t)), k, len(repr(grammar)))))

    num = make_num(num_kind, k)
    try:
        res = count(graph_of(grammar), t, needle, num).result
    except Watchdog:
        raise
    except BaseException as exc:  # noqa
        fn, line = raised_in(exc)
        if isinstance(exc, AssertionError) and "tree_is_valid" in line:
            fail(f"internal-validity-assert@{fn}", f"AssertionError in {fn}: {line}",
                 "tree-with-epsilon-child-node" if eps_child else None)
        else:
            fail(f"raises-{type(exc).__name__}@{fn}", f"{type(exc).__name__} in {fn}: {str(exc)[:100]}")
        return fails, "error"
    have = count_occurrences(t, needle)
    more = leaves_reaching(grammar, t, needle)
    if res is None:
        return fails, "not-ready"
    if res is False:
        if have <= k and more:
            return fails, "false-after-search"
        return fails, "false"
    if res is True:
        if have != k:
            fail("true-with-wrong-count", f"True although the tree has {have} needle node(s)")
        elif more:
            fail("true-with-open-leaf-reaching-needle", f"True although open leaves {more} can derive a needle")
        return fails, "true"
    if not isinstance(res, dict) or len(res) != 1:
        fail("unexpected-result", f"result {res!r}")
        return fails, "error"
    (key, val), = res.items()
    if num_kind == "variable":
        if key is not num:
            fail("variable-binding-wrong-key", f"key {key!r}")
        elif str(val.value) != str(have):
            fail("variable-binding-wrong-count", f"binds {val.value!r}, the tree has {have} needle node(s)")
        elif more:
            fail("variable-binding-with-open-leaf-reaching-needle",
                 f"binds {val.value!r} although open leaves {more} can derive a needle")
        return fails, "binding"
    if key is not t and not (hasattr(key, "id") and key.id == t.id):
        fail("completion-wrong-key", f"key {show(key) if hasattr(key, 'children') else key!r}")
        return fails, "completion"
    t2 = val
    if t2.value != t.value or not ref_valid(grammar, t2, t.value):
        fail("completion-invalid", f"proposed tree {show(t2)} is no derivation tree of G rooted in {t.value}")
        return fails, "completion"
    got = count_occurrences(t2, needle)
    if got != k:
        fail("completion-wrong-count", f"proposed tree {show(t2)} has {got} needle node(s)")
        return fails, "completion"
    more2 = leaves_reaching(grammar, t2, needle)
    if more2:
        fail("completion-open-leaf-reaching-needle",
             f"proposed tree {show(t2)}: open leaves {more2} can still derive a needle")
        return fails, "completion"
    ids2 = ids_of(t2)
    lost = [v for i, v in ids_of(t).items() if i not in ids2 or ids2[i] != v]
    if lost:
        fail("completion-loses-nodes", f"proposed tree {show(t2)} lacks nodes {lost} of the input")
    return fails, "completion"


# --------------------------------------------------------------------------- #
# worker
# --------------------------------------------------------------------------- #


def struct_json(st):
    value, children = st
    return [value, None if children is None else [struct_json(c) for c in children]]


def struct_unjson(j):
    value, children = j
    return (value, None if children is None else tuple(struct_unjson(c) for c in children))


def _spread(items: list, cap: int) -> list:
    if len(items) <= cap:
        return items
    step = len(items) / cap
    return [items[int(i * step)] for i in range(cap)]


def _worker(task) -> dict:
    import logging
    import warnings

    warnings.filterwarnings("ignore")
    logging.disable(logging.CRITICAL)
    grammar = task["grammar"]
    res = dict(n=0, fails=[], timeouts=0, timeout_cases=[], outcomes={}, none_although_exists=0,
               none_examples=[], skipped_after_timeout=0)
    if task["family"] == "fixed":
        lens = possible_lengths(grammar, task["max_n"])
        for nt in task["nts"]:
            for n in range(0, task["max_n"] + 1):
                for seed in task["seeds"]:
                    try:
                        with watchdog(FIXED_WATCHDOG):
                            fails, outcome = check_fixed(grammar, nt, n, seed, as_tree=(seed % 2 == 1))
                    except Watchdog:
                        res["timeouts"] += 1
                        if len(res["timeout_cases"]) < 3:
                            res["timeout_cases"].append(f"create_fixed_length_tree({nt}, n={n}, seed={seed}) "
                                                        f"grammar={grammar!r}"[:300])
                        continue
                    res["n"] += 1
                    res["outcomes"][outcome] = res["outcomes"].get(outcome, 0) + 1
                    if outcome == "none" and n in lens[nt]:
                        res["none_although_exists"] += 1
                        if len(res["none_examples"]) < 2:
                            res["none_examples"].append(f"{nt} n={n} seed={seed} grammar={grammar!r}"[:200])
                    res["fails"].extend(fails)
    else:
        for sj in task["structs"]:
            st = struct_unjson(sj)
            for needle in task["needles"]:
                gave_up = False  # one expiry per (tree, needle): the remaining nums are skipped
                for k in task["nums"]:
                    for num_kind in task["num_kinds"]:
                        if gave_up:
                            res["skipped_after_timeout"] += 1
                            continue
                        t = from_struct(st)
                        try:
                            with watchdog(COUNT_WATCHDOG):
                                fails, outcome = check_count(grammar, t, needle, k, num_kind)
                        except Watchdog:
                            res["timeouts"] += 1
                            gave_up = True
                            if len(res["timeout_cases"]) < 2:
                                res["timeout_cases"].append(f"count(tree={show(t)}, needle={needle}, num={k}) "
                                                            f"grammar={grammar!r}"[:300])
                            continue
                        res["n"] += 1
                        res["outcomes"][outcome] = res["outcomes"].get(outcome, 0) + 1
                        res["fails"].extend(fails)
    by_sig: Dict[str, List[dict]] = {}
    counts: Dict[str, int] = {}
    for f in res["fails"]:
        counts[f["signature"]] = counts.get(f["signature"], 0) + 1
        by_sig.setdefault(f["signature"], []).append(f)
    kept = []
    for sig, fs in by_sig.items():
        fs.sort(key=lambda f: tuple(f["size"]))
        kept.extend(fs[:2])
    res["fails"] = kept
    res["fail_counts"] = counts
    return res


def run(rep, tier, seed):
    import isla.solver  # noqa: F401  loaded before the pool forks

    quick = tier == "quick"
    rng = random.Random(seed * 1000003 + 14)
    max_n = 8
    seeds = [seed * 100 + i for i in range(5)]
    n_random = 20 if quick else 60
    tree_nodes = 7 if quick else 9
    cap_trees = 30 if quick else 90
    nums = [0, 1, 2, 3, 4]

    rep.assume("oracles: bounded.reftree.ref_valid / ref_open / ref_str, bounded.refeval."
               "count_occurrences (all nodes labelled with the needle, root included), own "
               "reachability closure bounded.c10_common.reach_plus")
    rep.assume("'can still produce a needle' = the needle occurs STRICTLY below an open leaf in some "
               "derivation (an open leaf labelled with the needle itself is an occurrence already)")
    rep.assume("create_fixed_length_tree returning None is never a violation; non-termination "
               f"(watchdog {FIXED_WATCHDOG} s / {COUNT_WATCHDOG} s) is counted as inconclusive; after one expiry for a "
               "(tree, needle) pair the remaining num values of that pair are skipped "
               "(count.skipped_after_timeout)")
    rep.rule("(a) case = (grammar, nonterminal, n, seed); non-trivial iff a tree is returned. "
             "(b) case = (grammar, tree, needle, num, kind of num argument); non-trivial iff count() "
             "proposes a completion, returns True, or binds the numeric variable")
    rep.bound(f"(a) every nonterminal, n in 0..{max_n}, seeds {seeds} (odd seeds pass the start as an "
              f"open DerivationTree, even ones as a string)")
    rep.bound(f"(b) open and closed trees with <= {tree_nodes} nodes rooted in the start symbol (at most "
              f"{cap_trees} per grammar and epsilon style), every nonterminal as needle, num in {nums} "
              f"given as str; additionally as DerivationTree (closed/open numeral) and as an unbound "
              f"numeric variable for a third of the trees")
    rep.bound(f"grammars: {len(BG.GRAMMARS)} shared, {len(EXTRA_GRAMMARS)} extra, {n_random} random")

    fam: List[Tuple[str, dict, str]] = []
    for name, g in BG.GRAMMARS.items():
        fam.append((name, g, BG.START_SYMBOLS[name]))
    for name, g in EXTRA_GRAMMARS.items():
        fam.append((name, g, "<start>"))
    for i in range(n_random):
        fam.append((f"random{i}", BG.random_grammar(rng), "<start>"))

    tasks = []
    for name, g, start in fam:
        nts = list(g.keys())
        for i in range(0, len(nts), 2):
            tasks.append(dict(family="fixed", gname=name, grammar=g, nts=nts[i:i + 2], max_n=max_n, seeds=seeds))
    count_fam = fam[: len(BG.GRAMMARS) + len(EXTRA_GRAMMARS) + (6 if quick else 14)]
    for name, g, start in count_fam:
        styles = ["child"] + (["empty"] if BG.nullable_nonterminals(g) else [])
        for style in styles:
            structs = []
            for st in ref_tree_structs(g, start, tree_nodes, allow_open=True, eps_style=style):
                structs.append(st)
                if len(structs) >= 20000:
                    break
            head = structs[: cap_trees // 3]
            structs = head + _spread(structs[cap_trees // 3:], cap_trees - len(head))
            sj = [struct_json(s) for s in structs]
            for i in range(0, len(sj), 3):
                kinds = ["str"] if (i // 3) % 3 else ["str", "tree-closed", "tree-open", "variable"]
                tasks.append(dict(family="count", gname=name + "/" + style, grammar=g, structs=sj[i:i + 3],
                                  needles=list(g.keys()), nums=nums, num_kinds=kinds))

    sec: Dict[str, Dict[str, int]] = {"fixed_length": {}, "count": {}}
    all_fails: List[dict] = []
    fail_counts: Dict[str, int] = {}
    none_examples: List[str] = []
    shown = 0
    n_cases = 0
    for task, res in zip(tasks, run_pool(_worker, tasks, 16)):
        if "__crash__" in res:
            rep.checker_error("worker crashed: " + res["__crash__"])
            continue
        s = sec["fixed_length" if task["family"] == "fixed" else "count"]
        s["cases"] = s.get("cases", 0) + res["n"]
        s["timeouts"] = s.get("timeouts", 0) + res["timeouts"]
        s["skipped_after_timeout"] = s.get("skipped_after_timeout", 0) + res["skipped_after_timeout"]
        n_cases += res["n"]
        for o, c in res["outcomes"].items():
            s["outcome_" + o] = s.get("outcome_" + o, 0) + c
        if task["family"] == "fixed":
            s["none_although_exists"] = s.get("none_although_exists", 0) + res["none_although_exists"]
            none_examples.extend(res["none_examples"])
            for nt in task["nts"]:
                shown += 1
                rep.case(key=("fixed", task["gname"], nt), nontrivial=True,
                         sample=dict(family="fixed", grammar=task["gname"], nonterminal=nt)
                         if shown % 97 == 1 else None)
        else:
            for sj in task["structs"]:
                shown += 1
                rep.case(key=("count", task["gname"], repr(sj)), nontrivial=True,
                         sample=dict(family="count", grammar=task["gname"],
                                     tree=show(from_struct(struct_unjson(sj)))) if shown % 97 == 1 else None)
        for tc in res["timeout_cases"]:
            rep.note_inconclusive("watchdog (possible non-termination): " + tc)
        all_fails.extend(res["fails"])
        for sig, n in res["fail_counts"].items():
            fail_counts[sig] = fail_counts.get(sig, 0) + n
    rep.evaluations = n_cases
    sec["fixed_length"]["none_although_exists_examples"] = none_examples[:5]
    for name, s in sec.items():
        rep.section(name, **s)
    rep.section("failures_by_signature", **fail_counts)
    rep.exhaustive = False
    for name, s in sec.items():
        if s.get("timeouts"):
            rep.note_inconclusive(f"{s['timeouts']} cases of {name} hit the watchdog")

    # anti-vacuity
    if not sec["fixed_length"].get("outcome_tree"):
        rep.checker_error("create_fixed_length_tree never returned a tree")
    if not sec["count"].get("outcome_completion"):
        rep.checker_error("count() never proposed a completion")
    if not sec["count"].get("outcome_true") or not sec["count"].get("outcome_binding"):
        rep.checker_error("count() never returned True / never bound the numeric variable")
    # sanity: verdicts known by construction
    g = BG.GRAMMARS["rightrec"]
    f, o = check_fixed(g, "<list>", 3, 0)
    if f or o != "tree":
        rep.checker_error(f"sanity: <list> of length 3 exists ('a,a'): {o} {f}")
    if possible_lengths(g, 5)["<list>"] != [1, 3, 5]:
        rep.checker_error("sanity: possible_lengths")
    from isla.derivation_tree import DerivationTree as DT

    t = DT("<start>", (DT("<list>", None),))
    if leaves_reaching(g, t, "<item>") != ["<list>"] or leaves_reaching(g, DT("<item>", None), "<item>"):
        rep.checker_error("sanity: leaves_reaching")
    f, o = check_count(g, t, "<item>", 2)
    if f or o != "completion":
        rep.checker_error(f"sanity: count completion to 2 items must work: {o} {f}")

    all_fails.sort(key=lambda f: (f["signature"], tuple(f["size"]), f["what"]))
    for f in all_fails:
        rep.violation(f["signature"], f["what"], {"module": MODULE, "case": f["case"]})
    numeric_family(rep, tier)


NUMERIC_GRAMMARS = {
    # fixed-width numerals with an OPTIONAL sign: the plain rendering of a small value ("-5") is not a word, the
    # zero-padded one ("-005") is, and so is the unsigned one ("005", another number)
    "padded3-optional-sign": {"<start>": ["<int>"], "<int>": ["<sign><d><d><d>"], "<sign>": ["", "-", "+"],
                              "<d>": ["0", "1", "5", "9"]},
    "padded2-mandatory-sign": {"<start>": ["<int>"], "<int>": ["<sign><d><d>"], "<sign>": ["-", "+"],
                               "<d>": ["0", "1", "5"]},
}


def numeric_family(rep, tier: str) -> None:
    """(c) numeric requirement: the solver has to build an <int> tree whose decimal value is the number Z3 chose
    (extract_model_value_int_var: plain rendering, else sign + zero padding + digits).  Contract: every tree
    returned for `str.to.int(<int>) = V` is a word of the grammar whose value (optional sign, padding, digits) is V."""
    import random as _random
    import re as _re
    from isla.solver import ISLaSolver
    from bounded.c01_cases import is_watchdog
    values = (-5, 5, 0, -15, 105, -105, -1) if tier == "quick" else (-5, 5, 0, -15, 105, -105, -1, 9, -9, 50, -50, 999, -999, 11, -110)
    n = 0
    for gname, g in NUMERIC_GRAMMARS.items():
        width = len(g["<int>"][0].replace("<sign>", "").replace("<d>", "d"))
        digits = "".join(g["<d>"])
        signs = "|".join(_re.escape(x) for x in g["<sign>"] if x)
        word = _re.compile(r"^(?:%s)%s[%s]{%d}$" % (signs, "" if "" not in g["<sign>"] else "?", digits, width))
        for v in values:
            text = f"str.to.int(<int>) = {v}" if v >= 0 else f"str.to.int(<int>) = (- {abs(v)})"
            representable = any(word.match(w) for w in (f"{'-' if v < 0 else sg}{abs(v):0{width}d}" for sg in ("", "+")))
            _random.seed(1)
            try:
                solver = ISLaSolver(g, text, enable_optimized_z3_queries=True, timeout_seconds=20)
            except Exception as exc:  # noqa
                rep.note_inconclusive(f"numeric family: solver construction failed for {gname} {text}: {exc!r:.80}")
                continue
            for call in range(2):
                n += 1
                rep.case(key=("numeric", gname, v, call), nontrivial=True,
                         sample=dict(family="numeric", grammar=gname, constraint=text) if n <= 1 else None)
                try:
                    t = solver.solve()
                except (StopIteration, TimeoutError):
                    break
                except Exception as exc:  # noqa
                    if is_watchdog(exc):
                        break
                    rep.note_inconclusive(f"numeric family: {gname} {text}: solve() raised {type(exc).__name__} (exceptions escaping solve() are C02's business)")
                    break
                sol = str(t)
                ok_word = bool(word.match(sol))
                try:
                    ok_val = int(sol) == v
                except ValueError:
                    ok_val = False
                if not (ok_word and ok_val):
                    rep.violation(f"numeric-requirement:{gname}:{'not-a-word' if not ok_word else 'wrong-value'}:{'negative' if v < 0 else 'non-negative'}",
                                  f"ISLaSolver({gname}, {text!r}).solve() call #{call + 1} returned {sol!r}: "
                                  f"{'not a word of the grammar' if not ok_word else f'its value is {int(sol)}, requested {v}'}",
                                  dict(module=MODULE, case=dict(family="numeric", grammar=gname, g=g, constraint=text, value=v,
                                                                call=call), got=sol))
    # (c') the helper itself: ISLaSolver.extract_model_value for an int variable whose Z3 model value is V
    import z3 as _z3
    import isla.language as _L
    from isla.z3_helpers import z3_eq as _z3_eq
    direct_grammars = dict(NUMERIC_GRAMMARS)
    direct_grammars["two-zeros-then-number-optional-sign"] = {
        "<start>": ["<int>"], "<int>": ["<sign>00<leaddigit><digits>"], "<sign>": ["", "-", "+"],
        "<digits>": ["", "<digit><digits>"], "<digit>": list("0123456789"), "<leaddigit>": list("123456789")}
    n_direct = 0
    for gname, g in direct_grammars.items():
        for v in (5, 15, -5, -15, -105, 1, -1, 42, -17, -120):
            var = _L.Variable("i", "<int>")
            const = _z3.Int("i_0")
            zs = _z3.Solver()
            zs.add(_z3_eq(const, _z3.IntVal(v)))
            if zs.check() != _z3.sat:
                continue
            n += 1
            n_direct += 1
            rep.case(key=("numeric-direct", gname, v), nontrivial=True)
            try:
                solver = ISLaSolver(g)
                tree = solver.extract_model_value(var, zs.model(), {var: const}, set(), {var})
            except Exception as exc:  # noqa
                # no word of <int> has this value (digits / width of the grammar), or Z3's 300 ms budget was exceeded
                rep.note_inconclusive(f"numeric-direct: {gname} value {v}: {type(exc).__name__}: {str(exc)[:80]}")
                continue
            sol = str(tree)
            try:
                ok_val = int(sol) == v
            except ValueError:
                ok_val = False
            ok_root = tree.value == "<int>" and not tree.is_open()
            if not (ok_val and ok_root):
                rep.violation(f"numeric-requirement:extract_model_value:{gname}:{'wrong-value' if ok_root else 'wrong-root-or-open'}:"
                              f"{'negative' if v < 0 else 'non-negative'}",
                              f"ISLaSolver({gname}).extract_model_value(<int> variable, model value {v}) built the tree "
                              f"{sol!r} (root {tree.value})" + (f": its value is {int(sol)}" if not ok_val and sol.lstrip('+-').isdigit() else ""),
                              dict(module=MODULE, case=dict(family="numeric-direct", grammar=gname, g=g, value=v), got=sol))
    rep.section("numeric", evaluations=n, direct_calls=n_direct, grammars=len(NUMERIC_GRAMMARS), values=list(values))
    rep.rule("(c) numeric: fixed-width signed numerals; constraint str.to.int(<int>) = V for small positive / negative / "
             "zero V; every returned tree is a word whose decimal value is V")


def replay(path: str) -> int:
    data = load_replay(path)
    c = data["case"]
    if c["family"] == "numeric-direct":
        import z3 as _z3
        import isla.language as _L
        from isla.solver import ISLaSolver
        from isla.z3_helpers import z3_eq as _z3_eq
        var = _L.Variable("i", "<int>")
        const = _z3.Int("i_0")
        zs = _z3.Solver()
        zs.add(_z3_eq(const, _z3.IntVal(c["value"])))
        zs.check()
        tree = ISLaSolver(c["g"]).extract_model_value(var, zs.model(), {var: const}, set(), {var})
        print(f"replay C14: extract_model_value(<int>, {c['value']}) on {c['grammar']} -> {str(tree)!r}")
        bad = int(str(tree)) != c["value"]
        print("  verdict:", "VIOLATED" if bad else "holds")
        return 1 if bad else 0
    if c["family"] == "numeric":
        import random as _random
        from isla.solver import ISLaSolver
        _random.seed(1)
        solver = ISLaSolver(c["g"], c["constraint"], enable_optimized_z3_queries=True, timeout_seconds=20)
        sols = []
        for _ in range(c["call"] + 1):
            try:
                sols.append(str(solver.solve()))
            except BaseException as exc:  # noqa
                sols.append(type(exc).__name__)
                break
        print(f"replay C14: ISLaSolver({c['grammar']}, {c['constraint']!r}) -> {sols}; requested value {c['value']}")
        bad = False
        try:
            bad = int(sols[-1]) != c["value"]
        except ValueError:
            bad = sols[-1] not in ("StopIteration", "TimeoutError")
        print("  verdict:", "VIOLATED" if bad else "holds")
        return 1 if bad else 0
    if c["family"] == "fixed":
        print(f"replay C14: create_fixed_length_tree({c['nt']}, n={c['n']}) seed={c['seed']} "
              f"grammar={c['grammar']!r}")
        fails, outcome = check_fixed(c["grammar"], c["nt"], c["n"], c["seed"], c.get("as_tree", False))
    else:
        t = tree_from_json(c["tree"], keep_ids=True)
        fresh_ids_above(t)
        print(f"replay C14: count(tree={show(t)}, needle={c['needle']}, num={c['k']} as {c['num_kind']}) "
              f"grammar={c['grammar']!r}")
        fails, outcome = check_count(c["grammar"], t, c["needle"], c["k"], c["num_kind"])
    print("  outcome:", outcome)
    for f in fails:
        print("  still fails:", f["signature"], "--", f["what"])
    if not fails:
        print("  contract holds now")
    return 1 if fails else 0
