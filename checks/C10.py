"""C10 -- Earley parser.  Proved: chart soundness (scan/predict/complete/fill_chart/Column.add keep every state
justified by a derivation; acceptance implies membership).  Bounded, exhaustive per bound: completeness, trees,
ISLaSolver.parse against an independent recogniser."""
from vlib.harness import proved_tier
from checks import bounded_C10

LEVEL = "other"


def run(rep, tier, seed):
    proved_tier(rep, "C10", seed, expected_min_obligations=10)
    bounded_C10.run(rep, tier, seed)


def replay(path):
    import json
    d = json.load(open(path))
    if d.get("module", "").startswith("checks.bounded_") or "case" in d:
        return bounded_C10.replay(path)
    from vlib.harness import replay_file
    return replay_file(path)
