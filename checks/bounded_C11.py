"""C11 (bounded) -- BNF print / parse round trip.

Contract (property statement), for a grammar G in dictionary form:

    G2 = parse_bnf(unparse_grammar(G))

  * no terminal of G contains '<'   ==>  G2 == G (same keys in the same order,
    same alternative strings);
  * otherwise, for every nonterminal N of G and every string s (bounded):
    ref_member(G2, s, N) == ref_member(G, s, N);
  * escaped characters keep their meaning (special case of the above for
    grammars with one terminal).

Oracle for languages: bounded.reftree.ref_member.  The dictionary format is
read with bounded.reftree.split_expansion (own re-implementation of the input
format).
"""
from __future__ import annotations

import itertools
import random
from typing import Dict, List, Optional, Tuple

from bounded import grammars as BG
from bounded.c10_common import Watchdog, load_replay, run_pool, watchdog
from bounded.reftree import is_nt, ref_member, split_expansion

MODULE = "checks.bounded_C11"

CRITICAL = ["\\", '"', "n", "t", "x", "0", "5", "c", "b", "\n", "\x0b", "\x7f", "é", "$"]

PLANE_SAMPLES = [
    0x2028, 0x3000, 0xFEFF, 0xFFFD,  # BMP specials
    0x1F600, 0x20000, 0x30000, 0x40000, 0x50000, 0x60000, 0x70000, 0x80000,
    0x90000, 0xA0000, 0xB0000, 0xC0000, 0xD0000, 0xE0001, 0xF0000, 0x10FFFD,
]

POOL = ["<", "<a", "a<b", "<<", "a<", ">", "\\", '"', '\\"', "n", "\n", "\\n", "\x0b",
        "é", "$", "\\<", "<\\", '"<"', " ", "< >", "<a b>", "\x00", "\x7f<", "\\x0b",
        "#", ";", "|", "::=", "'", "\t", "\r", "# c\n", '" | "']


# --------------------------------------------------------------------------- #
# one case
# --------------------------------------------------------------------------- #


def terminals_of(grammar) -> List[str]:
    out = []
    for alts in grammar.values():
        for alt in alts:
            for sym in split_expansion(alt):
                if not (is_nt(sym) and sym in grammar) and not is_nt(sym):
                    out.append(sym)
    return out


def _char_feature(ch: str) -> str:
    o = ord(ch)
    if ch == "<":
        return "langle"
    if ch == "\\":
        return "backslash"
    if ch == '"':
        return "quote"
    if o < 0x20 or o == 0x7F:
        return "ascii-control"
    if o < 0x7F:
        return "ascii-printable"
    if o <= 0xFF:
        return "latin1"
    if o <= 0xFFFF:
        return "bmp"
    return "astral"


def terminal_class(terminals: List[str]) -> str:
    """Deterministic input class of the terminals of a grammar."""
    feats = set()
    if any("$$BESC$$" in t for t in terminals):
        # dominating feature: the text instantiate_escaped_symbols reserves
        return "terminal-containing-$$BESC$$"
    for t in terminals:
        for ch in t:
            f = _char_feature(ch)
            if f != "ascii-printable":
                feats.add(f)
    return "+".join(sorted(feats)) or "ascii-printable"


def check_grammar(grammar, max_len: int = 3) -> Tuple[List[dict], dict]:
    """-> (failures, info)"""
    from isla.language import parse_bnf, unparse_grammar

    info = dict(identical_expected=False, language_checked=0, structural_langle_ok=None)
    fails: List[dict] = []
    terms = terminals_of(grammar)
    cls = terminal_class(terms)

    def fail(stage: str, kind: str, detail: str):
        fails.append(dict(
            signature=f"{stage}:{kind}:{cls}",
            what=f"grammar={grammar!r}: {detail}",
            case=dict(grammar=grammar, max_len=max_len),
            size=(len(repr(grammar)),),
        ))

    try:
        text = unparse_grammar(grammar)
    except Watchdog:
        raise
    except BaseException as exc:  # noqa
        fail("unparse_grammar", f"raises-{type(exc).__name__}", f"{type(exc).__name__}: {str(exc)[:100]}")
        return fails, info
    try:
        g2 = parse_bnf(text)
    except Watchdog:
        raise
    except BaseException as exc:  # noqa
        fail("parse_bnf", f"raises-{type(exc).__name__}",
             f"BNF text {text!r}: {type(exc).__name__}: {str(exc)[:100]}")
        return fails, info
    if not isinstance(g2, dict):
        fail("parse_bnf", "no-grammar", f"BNF text {text!r}: result {g2!r}")
        return fails, info

    has_langle = any("<" in t for t in terms)
    if not has_langle:
        info["identical_expected"] = True
        if g2 != grammar or list(g2.keys()) != list(grammar.keys()):
            fail("parse_bnf(unparse_grammar)", "grammar-not-identical",
                 f"BNF text {text!r} parses to {g2!r}")
        return fails, info

    # '<' inside a terminal: same language from every original nonterminal
    chars = BG.terminals_chars(grammar)
    alpha = chars + [c for c in "#~z" if c not in chars][:1]
    n = max_len
    while n > 1 and sum(len(alpha) ** k for k in range(n + 1)) > 6000:
        n -= 1
    missing = [nt for nt in grammar if nt not in g2]
    if missing:
        fail("parse_bnf(unparse_grammar)", "nonterminal-lost", f"{missing} missing in {g2!r}")
        return fails, info
    for k in range(n + 1):
        for tup in itertools.product(alpha, repeat=k):
            s = "".join(tup)
            for nt in grammar:
                info["language_checked"] += 1
                a, b = ref_member(grammar, s, nt), ref_member(g2, s, nt)
                if a != b:
                    fail("parse_bnf(unparse_grammar)", "language-differs",
                         f"{s!r} from {nt}: original {a}, re-parsed {b}; re-parsed grammar {g2!r}")
                    return fails, info
    # informational: the documented shape (fresh <langle..> ::= "<")
    new = [nt for nt in g2 if nt not in grammar]
    ok = len(new) == 1 and g2[new[0]] == ["<"]
    if ok:
        back = {nt: [alt.replace(new[0], "<") for alt in alts] for nt, alts in g2.items() if nt != new[0]}
        ok = back == grammar
    info["structural_langle_ok"] = ok
    return fails, info


def check_char(ch: str) -> List[dict]:
    """(i): the single character as the only terminal; additionally the helper
    composition instantiate_escaped_symbols(escaped literal) on its own."""
    from isla.helpers import instantiate_escaped_symbols
    from isla.language import unparse_grammar

    grammar = {"<start>": [ch]}
    fails, _ = check_grammar(grammar, 2)
    try:
        text = unparse_grammar(grammar)
        prefix = '<start> ::= "'
        if text.startswith(prefix) and text.endswith('"'):
            lit = text[len(prefix):-1]
            back = instantiate_escaped_symbols(lit)
            if back != ch:
                fails.append(dict(
                    signature=f"instantiate_escaped_symbols(escape_char):char-changed:{_char_feature(ch)}",
                    what=f"U+{ord(ch):04X}: literal {lit!r} is read back as {back!r}",
                    case=dict(grammar=grammar, max_len=2), size=(1,)))
        else:
            fails.append(dict(
                signature=f"unparse_grammar:unexpected-shape:{_char_feature(ch)}",
                what=f"U+{ord(ch):04X}: BNF text {text!r}",
                case=dict(grammar=grammar, max_len=2), size=(1,)))
    except Watchdog:
        raise
    except BaseException as exc:  # noqa
        if not fails:
            fails.append(dict(
                signature=f"unparse_grammar:raises-{type(exc).__name__}:{_char_feature(ch)}",
                what=f"U+{ord(ch):04X}: {exc}", case=dict(grammar=grammar, max_len=2), size=(1,)))
    return fails


# --------------------------------------------------------------------------- #
# families
# --------------------------------------------------------------------------- #


def _intact(grammar, wanted: List[str]) -> bool:
    """The dictionary format reads every wanted terminal as ONE terminal
    symbol (or as part of one) and invents no undefined nonterminal."""
    terms = []
    for alts in grammar.values():
        for alt in alts:
            for sym in split_expansion(alt):
                if is_nt(sym):
                    if sym not in grammar:
                        return False
                else:
                    terms.append(sym)
    return all(any(w in t for t in terms) for w in wanted if w)


def family_iii(rng: random.Random, quick: bool) -> List[Tuple[str, dict]]:
    out: List[Tuple[str, dict]] = []
    skipped = 0
    pairs = list(itertools.permutations(POOL, 2))
    if quick:
        rng.shuffle(pairs)
        pairs = sorted(pairs[:200], key=repr)
    for t1, t2 in pairs:
        for g in ({"<start>": [t1, t2]}, {"<start>": [t1, "", t2]}):
            if _intact(g, [t1, t2]):
                out.append(("iii-alternatives", g))
            else:
                skipped += 1
    n_triples = 150 if quick else 1200
    for _ in range(n_triples):
        t1, t2, t3 = (POOL[rng.randrange(len(POOL))] for _ in range(3))
        if t2 == "" or t3 == t1 + "<A>":
            continue
        g = {"<start>": ["<A>" + t1 + "<B>"], "<A>": [t2, ""], "<B>": [t1 + "<A>", t3]}
        if len(set(g["<B>"])) == 2 and _intact(g, [t1, t2, t3]):
            out.append(("iii-nested", g))
        g = {"<start>": ["<langle>" + t1], "<langle>": [t2]}
        if _intact(g, [t1, t2]):
            out.append(("iii-langle-defined", g))
        g = {"<start>": ["<langle><langle_0>" + t1 + "<langle_1>"], "<langle>": [t2],
             "<langle_0>": [t3, ""], "<langle_1>": ["<"]}
        if _intact(g, [t1, t2, t3]):
            out.append(("iii-langle-defined", g))
    for g in ({"<start>": ["$$BESC$$"]}, {"<start>": ["a$$BESC$$b", ""]},
              {"<start>": ["<A>$$BESC$$"], "<A>": ["<", ""]}):
        out.append(("iii-placeholder", g))
    for name, g in BG.GRAMMARS.items():
        out.append(("iii-shared-grammar", g))
    for _ in range(40 if quick else 200):
        out.append(("iii-random-grammar", BG.random_grammar(rng)))
    # random grammars whose terminals are replaced by critical strings
    for _ in range(60 if quick else 400):
        base = BG.random_grammar(rng)
        mapping: Dict[str, str] = {}
        g2 = {}
        for nt, alts in base.items():
            new_alts = []
            for alt in alts:
                syms = []
                for sym in split_expansion(alt):
                    if is_nt(sym):
                        syms.append(sym)
                    else:
                        if sym not in mapping:
                            k = rng.randint(1, 3)
                            mapping[sym] = "".join(CRITICAL[rng.randrange(len(CRITICAL))] for _ in range(k))
                        syms.append(mapping[sym])
                a = "".join(syms)
                if a not in new_alts:
                    new_alts.append(a)
            g2[nt] = new_alts
        out.append(("iii-random-critical", g2))
    return out


# --------------------------------------------------------------------------- #
# worker
# --------------------------------------------------------------------------- #


def _worker(task) -> dict:
    import logging
    import warnings
    import io
    import contextlib

    warnings.filterwarnings("ignore")
    logging.disable(logging.CRITICAL)
    res = dict(n=0, fails=[], identical=0, language=0, lang_strings=0, timeouts=0,
               structural_langle_bad=0, keys=[], family=task["family"])
    sink = io.StringIO()
    import isla.language  # noqa: F401  (slow first import stays outside the watchdog)

    for item in task["items"]:
        try:
            with watchdog(90), contextlib.redirect_stderr(sink), contextlib.redirect_stdout(sink):
                if task["family"] == "i-char":
                    fails = check_char(chr(item))
                    info = dict(identical_expected=chr(item) != "<", language_checked=0,
                                structural_langle_ok=None)
                else:
                    grammar = {"<start>": [item]} if task["family"] == "ii-string" else item
                    fails, info = check_grammar(grammar, task["max_len"])
        except Watchdog:
            res["timeouts"] += 1
            continue
        res["n"] += 1
        res["identical"] += int(bool(info["identical_expected"]))
        res["language"] += int(info["language_checked"] > 0)
        res["lang_strings"] += info["language_checked"]
        if info["structural_langle_ok"] is False:
            res["structural_langle_bad"] += 1
        res["fails"].extend(fails)
    by_sig: Dict[str, List[dict]] = {}
    counts: Dict[str, int] = {}
    for f in res["fails"]:
        counts[f["signature"]] = counts.get(f["signature"], 0) + 1
        by_sig.setdefault(f["signature"], []).append(f)
    kept = []
    for sig, fs in by_sig.items():
        fs.sort(key=lambda f: tuple(f["size"]))
        kept.extend(fs[:3])
    res["fails"] = kept
    res["fail_counts"] = counts
    return res


def run(rep, tier, seed):
    import isla.language  # noqa: F401  loaded before the pool forks
    quick = tier == "quick"
    rng = random.Random(seed * 1000003 + 11)
    str_len = 3 if quick else 4
    lang_len = 3 if quick else 4

    rep.assume("oracle bounded.reftree.ref_member decides language membership; the dictionary "
               "format is read with bounded.reftree.split_expansion")
    rep.assume("terminals that contain text of nonterminal shape (<...> without blank) cannot be "
               "written in the dictionary format and are outside the domain; grammars with "
               "nonterminals unreachable from <start> are no valid ISLa grammars "
               "(helpers.is_valid_grammar) and are excluded; nonterminal NAMES are plain "
               "identifiers (the property quantifies over terminal strings)")
    rep.rule("case = one grammar G; contract: parse_bnf(unparse_grammar(G)) == G when no terminal "
             "contains '<' (non-trivial: always), else ref_member agrees for every original "
             "nonterminal on all strings up to the language bound (non-trivial: always)")
    rep.bound("(i) every code point 0..0x24F and %d samples (BMP specials, one per plane 1..16) as "
              "the only terminal" % len(PLANE_SAMPLES))
    rep.bound(f"(ii) every string of length <= {str_len} over the 14-letter critical alphabet as the "
              f"only terminal")
    rep.bound(f"(iii) grammars with several critical terminals / '<' inside terminals / empty "
              f"alternatives / <langle> already defined / the shared and random grammars; language "
              f"comparison on all strings of length <= {lang_len} over the grammar's characters plus "
              f"one foreign character (reduced while more than 6000 strings)")

    tasks = []
    cps = list(range(0, 0x250)) + PLANE_SAMPLES
    for i in range(0, len(cps), 40):
        tasks.append(dict(family="i-char", items=cps[i:i + 40], max_len=2))
    strings = ["".join(t) for k in range(0, str_len + 1) for t in itertools.product(CRITICAL, repeat=k)]
    for i in range(0, len(strings), 400):
        tasks.append(dict(family="ii-string", items=strings[i:i + 400], max_len=2))
    fam3 = family_iii(rng, quick)
    by_family: Dict[str, List[dict]] = {}
    for fam, g in fam3:
        by_family.setdefault(fam, []).append(g)
    for fam, gs in by_family.items():
        for i in range(0, len(gs), 25):
            tasks.append(dict(family=fam, items=gs[i:i + 25], max_len=lang_len))

    counts: Dict[str, Dict[str, int]] = {}
    all_fails: List[dict] = []
    fail_counts: Dict[str, int] = {}
    shown = 0
    for task, res in zip(tasks, run_pool(_worker, tasks, 16)):
        if "__crash__" in res:
            rep.checker_error("worker crashed: " + res["__crash__"])
            continue
        c = counts.setdefault(task["family"], dict(cases=0, identical_expected=0, language_compared=0,
                                                   language_strings=0, timeouts=0,
                                                   langle_shape_differs=0))
        c["cases"] += res["n"]
        c["identical_expected"] += res["identical"]
        c["language_compared"] += res["language"]
        c["language_strings"] += res["lang_strings"]
        c["timeouts"] += res["timeouts"]
        c["langle_shape_differs"] += res["structural_langle_bad"]
        for item in task["items"]:
            shown += 1
            rep.case(key=(task["family"], repr(item)), nontrivial=True,
                     sample=dict(family=task["family"], item=repr(item)[:80]) if shown % 3001 == 1 else None)
        all_fails.extend(res["fails"])
        for sig, n in res["fail_counts"].items():
            fail_counts[sig] = fail_counts.get(sig, 0) + n
    for fam, c in counts.items():
        rep.section(fam, **c)
        if c["timeouts"]:
            rep.note_inconclusive(f"{c['timeouts']} cases of {fam} hit the watchdog")
    rep.section("failures_by_signature", **fail_counts)
    rep.exhaustive = True

    # anti-vacuity
    for fam in ("i-char", "ii-string", "iii-alternatives", "iii-nested", "iii-langle-defined",
                "iii-shared-grammar", "iii-random-grammar", "iii-random-critical"):
        if counts.get(fam, {}).get("cases", 0) == 0:
            rep.checker_error(f"family {fam} produced no case")
    if sum(c["language_compared"] for c in counts.values()) == 0:
        rep.checker_error("no grammar with '<' in a terminal was compared by language")
    if sum(c["identical_expected"] for c in counts.values()) == 0:
        rep.checker_error("no grammar was compared for identity")
    # sanity: oracle verdict known by construction
    f, info = check_grammar({"<start>": ["a<start>", "b"]}, 3)
    if f or not info["identical_expected"]:
        rep.checker_error("sanity: plain grammar must round-trip identically: " + repr(f))
    if ref_member({"<start>": ["<langle>a"], "<langle>": ["<"]}, "<a", "<start>") is not True:
        rep.checker_error("sanity: ref_member on '<' terminal")

    all_fails.sort(key=lambda f: (f["signature"], tuple(f["size"]), f["what"]))
    for f in all_fails:
        rep.violation(f["signature"], f["what"], {"module": MODULE, "case": f["case"]})


def replay(path: str) -> int:
    data = load_replay(path)
    c = data["case"]
    g = c["grammar"]
    print(f"replay C11: grammar={g!r}")
    if list(g.keys()) == ["<start>"] and len(g["<start>"]) == 1 and len(g["<start>"][0]) == 1:
        fails = check_char(g["<start>"][0])
    else:
        fails, _ = check_grammar(g, c.get("max_len", 3))
    for f in fails:
        print("  still fails:", f["signature"], "--", f["what"])
    if not fails:
        print("  contract holds now")
    return 1 if fails else 0
