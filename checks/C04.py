"""C04 -- structural predicates.  Proved: before/after/inside/direct_child/
same_position/different_position for all paths (+ lemmas that `Before` is
document order).  Bounded: nth/consecutive/level against ref_pred."""
from vlib.harness import proved_tier

LEVEL = "other"


def run(rep, tier, seed):
    proved_tier(rep, "C04", seed, expected_min_obligations=6)
    try:
        from checks import bounded_C04
    except ImportError:
        rep.assume("bounded part for nth/consecutive/level not built yet")
        return
    bounded_C04.run(rep, tier, seed)


def replay(path):
    import json
    d = json.load(open(path))
    if d.get("module", "").startswith("checks.bounded_") or "case" in d:
        from checks import bounded_C04
        return bounded_C04.replay(path)
    from vlib.harness import replay_file
    return replay_file(path)
