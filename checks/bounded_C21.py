"""Bounded contract check for C21 (shipped formalizations).

Contract (post-condition of `ISLaSolver.solve()`): for the case studies shipped
in /repo/src/isla_formalizations (CSV, XML, reST, simple TAR), every tree that
`solve()` returns for the shipped grammar + shipped constraint under a shipped
solver configuration is a closed tree of the grammar whose string passes an
INDEPENDENT validator of the formalized property (bounded/c21_validators.py:
own CSV reader, own XML tokenizer + xml.etree, docutils + own link/underline/
numbering rules, own simple-TAR field/checksum recomputation).  ISLa's
evaluator and the predicates of isla_formalizations are never consulted when
judging a solution (only `replay` prints ISLa's own opinion next to ours).

Nothing is proved; the check samples the solver (seeds x two cost settings).
"""
from __future__ import annotations

import hashlib
import json
import multiprocessing as mp
import os
import re
import signal
import sys
import time
from typing import Any, Dict, List, Optional, Tuple

ROOT = os.path.dirname(os.path.dirname(os.path.abspath(__file__)))
if ROOT not in sys.path:
    sys.path.insert(0, ROOT)

from bounded import c21_validators as V  # noqa: E402

MODULE = "checks.bounded_C21"
LEVEL = "exploration"
NPROC = 16


class _SeededPool:
    """multiprocessing pool whose workers are *spawned* (fresh interpreters, one per job) with a
    fixed PYTHONHASHSEED, so that set/dict iteration orders inside ISLa do not vary between runs."""

    def __init__(self, nproc: int, hashseed: int):
        self._old = os.environ.get("PYTHONHASHSEED")
        os.environ["PYTHONHASHSEED"] = str(hashseed % 4294967295)
        self.pool = mp.get_context("spawn").Pool(nproc, maxtasksperchild=1)

    def close(self):
        try:
            self.pool.terminate()
            self.pool.join()
        finally:
            if self._old is None:
                os.environ.pop("PYTHONHASHSEED", None)
            else:
                os.environ["PYTHONHASHSEED"] = self._old

# ---------------------------------------------------------------------------
# shipped configurations
# ---------------------------------------------------------------------------
# name -> (source of the settings, cost vector, k, extra kwargs of the cost computer)
COSTS: Dict[str, Dict[str, Optional[Tuple[Tuple[float, ...], int, Dict[str, Any]]]]] = {
    "csv": {"std": None,
            "shipped": ((1, 0, 1, 0, 0), 3, {}),                        # evaluations/evaluate_csv.py
            "tests": None},                     # test_solver.py::test_csv_rows_equal_length_simpler
    "xml": {"std": None, "default": None,
            "shipped": ((10, 0, 6, 0, 13), 4, {}),                      # evaluations/evaluate_xml.py
            "tests": ((9.5, 0, 6, 0, 13), 4, {})},                      # test_solver.py::test_xml_with_prefixes
    "rest": {"std": None, "default": None,
             "shipped": ((7, 1.5, 2.5, 2, 18), 4,
                         {"reset_coverage_after_n_round_with_no_coverage": 1500}),  # evaluate_rest.py
             "tests": ((7, 1.5, 2.5, 2, 18), 4,
                       {"reset_coverage_after_n_round_with_no_coverage": 500})},    # test_solver.py::test_rest
    "tar": {"std": None,                                                # tests/test_solver.py::test_simple_tar
            "shipped": ((3, 0, 2, 0, 0), 4, {})},                       # evaluations/evaluate_tar.py
}

XML_RULES = {
    "wf+ns+redef": {"tag-mismatch", "undeclared-prefix", "xmlns-redeclared", "duplicate-attribute"},
    "wf": {"tag-mismatch"},
    "ns": {"undeclared-prefix", "xmlns-redeclared"},
    "redef": {"duplicate-attribute"},
}

# per tier: formalization -> {config: (variants, number of solver instances, solution cap per
# instance, wall budget s)}; config = cost setting + solver settings: std / shipped / tests (see COSTS)
PLAN = {
    "quick": {
        "csv": {"std": (["colno"], 2, 150, 110), "shipped": (["colno"], 2, 150, 110),
                "tests": (["colno"], 1, 60, 110)},
        "tar": {"std": (["all"], 2, 20, 110), "shipped": (["all"], 2, 20, 110)},
        "xml": {"std": (["wf+ns+redef"], 2, 150, 110), "default": (["wf+ns+redef"], 2, 150, 110),
                "shipped": (["wf+ns+redef"], 2, 150, 110), "tests": (["wf+ns+redef"], 4, 200, 150)},
        "rest": {"std": (["all"], 4, 300, 110), "default": (["all"], 10, 1500, 200), "shipped": (["all"], 2, 150, 110),
                 "tests": (["all"], 1, 60, 110)},
    },
    "thorough": {
        "csv": {"std": (["colno"], 4, 400, 270), "shipped": (["colno"], 4, 400, 270),
                "tests": (["colno"], 4, 150, 270)},
        "tar": {"std": (["all"], 8, 120, 270), "shipped": (["all"], 8, 120, 270)},
        "xml": {"std": (["wf+ns+redef", "wf+ns+redef", "wf+ns+redef", "wf", "ns", "redef"], 6, 500, 270),
                "shipped": (["wf+ns+redef", "wf+ns+redef", "wf+ns+redef", "wf", "ns", "redef"], 6, 500, 270),
                "tests": (["wf+ns+redef"], 4, 150, 270)},
        "rest": {"std": (["all"], 12, 600, 270), "default": (["all"], 32, 2000, 400), "shipped": (["all"], 6, 600, 270),
                 "tests": (["all"], 4, 150, 270)},
    },
}
FAMILY_ORDER = ("csv", "tar", "xml", "rest")      # short CSV jobs first, they free their slots at once
# minimum number of solutions per (formalization, cost setting) the tier is supposed to reach
MIN_SOLUTIONS = {"quick": 15, "thorough": 50}

SPEC = {
    "csv": "csv.py CSV_COLNO_PROPERTY: exists int num: forall <csv-record> elem in start: "
           "(str.to.int(num) >= 1 and count(elem, \"<raw-field>\", num))",
    "xml": "xml_lang.py XML_WELLFORMEDNESS_CONSTRAINT (opid = clid) & XML_NAMESPACE_CONSTRAINT "
           "(prefix of element/attribute names declared by xmlns:<prefix> in an enclosing element; no "
           "xmlns:xmlns) & XML_NO_ATTR_REDEF_CONSTRAINT (attribute names of one tag pairwise different)",
    "rest": "rest.py LENGTH_UNDERLINE (0 < len(title) <= len(underline)) & DEF_LINK_TARGETS (every "
            "x_ has a '.. _x:' label) & NO_LINK_TARGET_REDEF & LIST_NUMBERING_CONSECUTIVE "
            "(consecutive items n, n+1, n>0); validated by rest.render_rst (docutils, no stderr output)",
    "tar": "simple_tar.py TAR_CONSTRAINTS: file_name/linked_file_name ljust_crop_tar(...,100,NUL), "
           "checksum rjust_crop_tar(...,8,'0'), tar_checksum(header, checksum), link_constraint",
}


# ---------------------------------------------------------------------------
# worker side (imports ISLa lazily; returns plain JSON-able data)
# ---------------------------------------------------------------------------

class _Watchdog(BaseException):
    """BaseException: `except Exception` blocks inside ISLa / returns / docutils must not swallow it"""


def _alarm(signum, frame):
    raise _Watchdog()


_RE_NT = re.compile(r"(<[^<> ]*>)")


def _plain(tree) -> list:
    """own conversion DerivationTree -> [value, [children...] | None] (iterative)"""
    root: list = [tree.value, None]
    stack = [(tree, root)]
    while stack:
        t, node = stack.pop()
        ch = t.children
        if ch is None:
            continue
        node[1] = []
        for c in ch:
            cn = [c.value, None]
            node[1].append(cn)
            stack.append((c, cn))
    return root


def _plain_str(node: list) -> Tuple[str, bool]:
    """(concatenated terminal leaves, closed?)"""
    parts: List[str] = []
    closed = True
    stack = [node]
    while stack:
        v, ch = stack.pop()
        if ch is None:
            closed = False
            continue
        if not ch:
            # ISLa spells an epsilon expansion either as a child "" or as a nonterminal
            # with an empty child list (Earley parser / fuzzingbook convention)
            parts.append("" if _RE_NT.fullmatch(v) else v)
        else:
            stack.extend(reversed(ch))
    return "".join(parts), closed


def _conforms(node: list, grammar: Dict[str, List[str]]) -> Optional[str]:
    """None when every inner node expands by an alternative of the grammar."""
    alts_cache: Dict[str, List[List[str]]] = {}
    if node[0] != "<start>":
        return f"root is {node[0]!r}"
    stack = [node]
    while stack:
        v, ch = stack.pop()
        if ch is None:
            return f"open leaf {v!r}"
        if not ch:
            if v in grammar and "" not in grammar[v]:
                return f"nonterminal {v!r} without children but without epsilon alternative"
            continue
        if v not in grammar:
            return f"terminal {v!r} with children"
        if v not in alts_cache:
            alts_cache[v] = [[tok for tok in _RE_NT.split(a) if tok] or [""] for a in grammar[v]]
        kids = [c[0] for c in ch]
        if kids not in alts_cache[v]:
            return f"{v} -> {kids!r} is not an alternative of the grammar"
        stack.extend(ch)
    return None


def _find(node: list, value: str, out: list):
    stack = [node]
    order = []
    while stack:
        n = stack.pop()
        if n[0] == value:
            order.append(n)
        if n[1]:
            stack.extend(reversed(n[1]))
    out.extend(order)


def _rest_facts(node: list) -> Dict[str, Any]:
    titles, enums, refs, labels = [], [], [], []
    found: list = []
    _find(node, "<section-title>", found)
    for n in found:
        kids = n[1] or []
        tt = [k for k in kids if k[0] == "<title-text>"]
        ul = [k for k in kids if k[0] == "<underline>"]
        titles.append([_plain_str(tt[0])[0] if tt else "", _plain_str(ul[0])[0] if ul else ""])
    found = []
    _find(node, "<enumeration>", found)
    for n in found:
        items: list = []
        _find(n, "<enumeration_item>", items)
        nums = []
        for it in items:
            num = [k for k in (it[1] or []) if k[0] == "<number>"]
            nums.append(_plain_str(num[0])[0] if num else "")
        enums.append(nums)
    for nt in ("<internal_reference>", "<internal_reference_nospace>"):
        found = []
        _find(node, nt, found)
        for n in found:
            ids = [k for k in (n[1] or []) if k[0] == "<id>"]
            refs.append(_plain_str(ids[0])[0] if ids else "")
    found = []
    _find(node, "<label>", found)
    for n in found:
        ids = [k for k in (n[1] or []) if k[0] == "<id>"]
        labels.append(_plain_str(ids[0])[0] if ids else "")
    return {"titles": titles, "enumerations": enums, "refs": refs, "labels": labels}


def _build(formalization: str, variant: str, cost: str, timeout: int):
    """(grammar, solver) for a shipped configuration; imported at run time."""
    import functools
    from grammar_graph import gg
    from isla.fuzzer import GrammarFuzzer
    from isla.solver import (ISLaSolver, CostSettings, CostWeightVector,
                             GrammarBasedBlackboxCostComputer)
    kw: Dict[str, Any] = {}
    if formalization == "csv":
        import isla_formalizations.csv as F
        grammar, formula = F.CSV_GRAMMAR, F.CSV_COLNO_PROPERTY
        kw.update(max_number_free_instantiations=10, max_number_smt_instantiations=5,
                  enforce_unique_trees_in_queue=False, global_fuzzer=False,
                  fuzzer_factory=functools.partial(GrammarFuzzer, min_nonterminals=0,
                                                   max_nonterminals=30))
    elif formalization == "xml":
        import isla_formalizations.xml_lang as F
        grammar = F.XML_GRAMMAR_WITH_NAMESPACE_PREFIXES
        formula = {"wf+ns+redef": F.XML_WELLFORMEDNESS_CONSTRAINT & F.XML_NAMESPACE_CONSTRAINT
                   & F.XML_NO_ATTR_REDEF_CONSTRAINT,
                   "wf": F.XML_WELLFORMEDNESS_CONSTRAINT,
                   "ns": F.XML_NAMESPACE_CONSTRAINT,
                   "redef": F.XML_NO_ATTR_REDEF_CONSTRAINT}[variant]
        kw.update(max_number_free_instantiations=10, max_number_smt_instantiations=2)
    elif formalization == "rest":
        import isla_formalizations.rest as F
        grammar = F.REST_GRAMMAR
        formula = (F.DEF_LINK_TARGETS & F.LENGTH_UNDERLINE & F.LIST_NUMBERING_CONSECUTIVE
                   & F.NO_LINK_TARGET_REDEF)
        kw.update(max_number_free_instantiations=10, max_number_smt_instantiations=2)
    elif formalization == "tar":
        import isla_formalizations.simple_tar as F
        grammar, formula = F.SIMPLE_TAR_GRAMMAR, F.TAR_CONSTRAINTS
        kw.update(max_number_free_instantiations=1, max_number_smt_instantiations=1,
                  enforce_unique_trees_in_queue=False)
    else:
        raise ValueError(formalization)
    if cost == "default":
        kw = {}                 # ISLaSolver(grammar, constraint): the solver's own default settings
    if cost == "tests":
        # the configuration of the shipped test-suite (tests/test_solver.py)
        kw.update({"csv": dict(max_number_free_instantiations=1, max_number_smt_instantiations=2),
                   "xml": dict(max_number_free_instantiations=1, max_number_smt_instantiations=1,
                               enforce_unique_trees_in_queue=True),
                   "rest": dict(max_number_free_instantiations=1, max_number_smt_instantiations=1,
                                enforce_unique_trees_in_queue=True)}[formalization])
    cs = COSTS[formalization][cost]
    if cs is not None:
        vec, k, extra = cs
        kw["cost_computer"] = GrammarBasedBlackboxCostComputer(
            CostSettings(CostWeightVector(*vec), k=k), gg.GrammarGraph.from_grammar(grammar),
            **extra)
    solver = ISLaSolver(grammar, formula, timeout_seconds=timeout, **kw)
    return grammar, solver


def judge(formalization: str, variant: str, s: str, facts: Optional[Dict[str, Any]]
          ) -> Tuple[List[List[str]], Dict[str, Any]]:
    """Independent verdict on one solution string.  Returns (breaches, info);
    info may carry 'outside' (not a violation: outside the formalized rules),
    'inconsistent' (validators disagree: checker error) and statistics."""
    info: Dict[str, Any] = {}
    if formalization == "csv":
        br = V.validate_csv(s)
        own = None
        try:
            own = [len(r) for r in V.csv_read(s)]
        except V.CsvSyntaxError:
            pass
        py = V.csv_pyreader_counts(s)
        if own is not None and py != own:
            info["inconsistent"] = f"python csv module counts {py} != own reader counts {own}"
        info["stats"] = V.csv_stats(s)
    elif formalization == "xml":
        br, xi = V.validate_xml(s)
        rules = XML_RULES[variant]
        if variant != "wf+ns+redef":
            # a sub-combination only formalizes its own rule classes; etree verdict is
            # meaningless there (it would reject e.g. unbound prefixes of the `wf` variant)
            br = [b for b in V.validate_xml_own(s) if b[0] in rules or b[0] == "malformed-markup"]
            xi["outside"] = xi["inconsistent"] = None
        info.update(xi)
        info["stats"] = V.xml_stats(s)
    elif formalization == "rest":
        br = V.validate_rest_rules(s, facts)
        try:
            msgs, kinds = V.rest_docutils_messages(s)
        except _Watchdog:
            raise
        except Exception as e:  # docutils crashed: SEVERE
            msgs, kinds = [(4, "docutils-crash-" + type(e).__name__.lower(), str(e)[:120])], {}
        outside: Dict[str, int] = {}
        for lvl, cls, text in msgs:
            if lvl >= 3:
                br.append(("docutils-error:" + cls, f"docutils {('ERROR', 'SEVERE')[lvl > 3]}: {text}"))
            elif lvl == 2:
                mapped = V.REST_DOCUTILS_RULE_CLASSES.get(cls)
                if mapped is not None:
                    br.append(("docutils-warning:" + cls, f"docutils WARNING: {text}"))
                else:
                    outside["warning:" + cls] = outside.get("warning:" + cls, 0) + 1
            else:
                outside["info:" + cls] = outside.get("info:" + cls, 0) + 1
        n_titles = len((facts or {}).get("titles", []))
        if kinds and kinds.get("title", 0) + kinds.get("subtitle", 0) != n_titles:
            # e.g. ';\n=\n': docutils reads a punctuation-only title line as an overline and
            # renders a paragraph (INFO only).  rest.render_rst calls this an error; the shipped
            # constraints do not speak about it -> counted, not a violation.
            outside["titles_not_rendered_as_heading"] = 1
        info["docutils_other"] = outside
        info["stats"] = {"titles": len((facts or {}).get("titles", [])),
                         "enum_items_max": max([len(e) for e in (facts or {}).get("enumerations", [])]
                                               or [0]),
                         "refs": len((facts or {}).get("refs", [])),
                         "labels": len((facts or {}).get("labels", [])),
                         "rendered": kinds}
    elif formalization == "tar":
        br = V.validate_tar(s)
        info["stats"] = V.tar_stats(s)
    else:
        raise ValueError(formalization)
    return [[c, d] for c, d in br], info


def worker(job: Dict[str, Any]) -> Dict[str, Any]:
    """Pool entry point: never lets a BaseException escape (it would kill the pool worker and
    the parent would wait for the result until its deadline)."""
    try:
        return _worker(job)
    except BaseException as e:  # watchdog striking between the handlers of _worker
        signal.setitimer(signal.ITIMER_REAL, 0)
        return dict(idx=job["idx"], formalization=job["formalization"], variant=job["variant"],
                    cost=job["cost"], seed=job["seed"], solutions=[],
                    end="watchdog" if isinstance(e, _Watchdog) else "error",
                    error=f"{type(e).__name__}: {e}"[:300], elapsed=None)


def _worker(job: Dict[str, Any]) -> Dict[str, Any]:
    """One solver instance; returns up to job['cap'] judged solutions."""
    import random
    import warnings
    warnings.filterwarnings("ignore")
    import logging
    logging.disable(logging.WARNING)
    t0 = time.time()
    res: Dict[str, Any] = dict(idx=job["idx"], formalization=job["formalization"],
                               variant=job["variant"], cost=job["cost"], seed=job["seed"],
                               solutions=[], end="cap", error=None)
    budget = int(job["budget"])
    old = signal.signal(signal.SIGALRM, _alarm)
    # repeating timer: an exception raised inside a __del__ (z3) is swallowed by the
    # interpreter, so the watchdog must be able to strike again
    signal.setitimer(signal.ITIMER_REAL, budget + 5, 2.0)
    try:
        random.seed(job["seed"])
        grammar, solver = _build(job["formalization"], job["variant"], job["cost"], budget)
        for _ in range(job["cap"]):
            try:
                tree = solver.solve()
            except StopIteration:
                res["end"] = "stop"
                break
            except TimeoutError:
                res["end"] = "timeout"
                break
            plain = _plain(tree)
            own_str, closed = _plain_str(plain)
            s = str(tree)
            tree_breach: List[List[str]] = []
            if not closed:
                tree_breach.append(["open-tree", "solution tree has open leaves"])
            if own_str != s:
                tree_breach.append(["str-mismatch", f"str(tree)={s[:80]!r} but leaves spell {own_str[:80]!r}"])
            bad = _conforms(plain, grammar)
            if bad is not None:
                tree_breach.append(["tree-not-in-grammar", bad])
            facts = _rest_facts(plain) if job["formalization"] == "rest" else None
            breaches, info = judge(job["formalization"], job["variant"], s, facts)
            breaches = tree_breach + breaches
            rec = dict(s=s, breaches=breaches, info=info, t=round(time.time() - t0, 2))
            if facts is not None:
                rec["facts"] = facts
            if breaches:
                rec["tree"] = plain
            res["solutions"].append(rec)
    except _Watchdog:
        res["end"] = "watchdog"
    except BaseException as e:  # solver crashed (SystemExit included: keep the pool worker alive)
        import traceback
        signal.setitimer(signal.ITIMER_REAL, 0)
        res["end"] = "error"
        res["error"] = f"{type(e).__name__}: {e}"[:300]
        res["trace"] = traceback.format_exc()[-1500:]
    finally:
        signal.setitimer(signal.ITIMER_REAL, 0)
        signal.signal(signal.SIGALRM, old)
    res["elapsed"] = round(time.time() - t0, 2)
    return res


# ---------------------------------------------------------------------------
# parent side
# ---------------------------------------------------------------------------

def _jobs(tier: str, seed: int) -> List[Dict[str, Any]]:
    jobs: List[Dict[str, Any]] = []
    plan = PLAN[tier]
    k = 0
    for f in FAMILY_ORDER:
        for cost, (variants, ninst, cap, budget) in plan[f].items():
            for i in range(ninst):
                variant = variants[i % len(variants)]
                jobs.append(dict(idx=k, formalization=f, variant=variant, cost=cost,
                                 seed=seed + k, cap=cap, budget=budget))
                k += 1
    return jobs


def _sanity(rep) -> None:
    n_ok = n_bad = 0
    for f, s, facts, expect in V.SANITY:
        breaches, info = judge(f, {"xml": "wf+ns+redef", "csv": "colno"}.get(f, "all"), s, facts)
        got = {c for c, _ in breaches}
        rep.case(key=("sanity", f, hashlib.sha1(s.encode("utf-8", "replace")).hexdigest()[:12]),
                 nontrivial=True)
        if got != set(expect):
            rep.checker_error(f"sanity case {f} {s[:60]!r}: validator reports {sorted(got)}, "
                              f"expected {sorted(expect)}")
        if info.get("inconsistent"):
            rep.checker_error(f"sanity case {f} {s[:60]!r}: {info['inconsistent']}")
        if expect:
            n_bad += 1
        else:
            n_ok += 1
    rep.section("sanity", valid_inputs_accepted=n_ok, invalid_inputs_rejected=n_bad)
    if n_ok == 0 or n_bad == 0:
        rep.checker_error("sanity corpus lacks valid or invalid inputs")


def _texts(rep, tier: str) -> None:
    rep.exhaustive = False
    rep.rule("case = one tree returned by ISLaSolver(shipped grammar, shipped constraint, shipped "
             "settings).solve(); a job is one solver instance (random.seed(seed+job index)) asked "
             "repeatedly for solutions; key = (formalization, variant, cost setting, sha1 of the "
             "solution string). A case is trivial when the formalized rules have nothing to bite on: "
             "CSV with a single record; XML without any open/close pair, prefix or attribute list; "
             "reST without title, reference or enumeration of >= 2 items; every TAR archive is "
             "non-trivial (checksum + field widths always apply). Plus hand-written sanity inputs "
             "(valid and invalid per rule) that the validators must judge as expected.")
    plan = PLAN[tier]
    rep.bound("tier %s: %s; configurations: default = ISLaSolver(grammar, constraint) without any setting; std = solver default cost settings STD_COST_SETTINGS with "
              "the solver settings of evaluations/evaluate_*.py (TAR: of test_simple_tar), shipped = "
              "same settings with the cost vector/k of evaluations/evaluate_*.py, tests = settings and "
              "cost vector of tests/test_solver.py; sampled, not exhaustive" % (
                  tier, "; ".join(f"{f}/{c}: {v[1]} solver instance(s) x <= {v[2]} solutions "
                                  f"(watchdog {v[3]} s)" for f in FAMILY_ORDER
                                  for c, v in plan[f].items())))
    rep.assume("grammar, constraints and solver settings are imported at run time from "
               "/repo/src/isla_formalizations and mirror evaluations/evaluate_{csv,xml,rest}.py and "
               "tests/test_solver.py::test_simple_tar (max_number_free/smt_instantiations, "
               "enforce_unique_trees_in_queue, fuzzer factory).")
    rep.assume("validators are bounded/c21_validators.py (own readers; xml.etree/expat, Python csv and "
               "docutils as trusted cross-checks); they demand only what the shipped constraints "
               "formalize. XML: etree rejections for reasons no shipped constraint formalizes "
               "(reserved prefix xml bound to a namespace, duplicate *expanded* attribute names) are "
               "counted (section xml.outside_*) and not violations.")
    rep.assume("reST threshold: docutils ERROR/SEVERE (level >= 3) on a generated input is a violation "
               "(property text: 'docutils rendering without errors'; the authors' rest.render_rst fails "
               "on any stderr output, i.e. level >= 2). WARNING (level 2) is a violation only for the "
               "classes that are the docutils face of a formalized rule (title underline too short, "
               "duplicate explicit target name); other WARNINGs (inline markup, indentation ...) and "
               "INFO messages concern markup the shipped constraints do not formalize and are counted "
               "in section rest.docutils_other, as are solutions whose <section-title> count differs "
               "from the number of rendered headings (docutils reads a punctuation-only title such as "
               "';' as an overline; INFO only, but rest.render_rst would call it an error). Underline and numbering rules are anchored on the "
               "<section-title>/<enumeration> nodes of the returned tree (own traversal), because the "
               "shipped grammar is ambiguous on strings (a paragraph may spell 'abc\\n--').")
    rep.assume("simple TAR is the 216-byte toy entry of simple_tar.py (file_name[100] checksum[8] "
               "typeflag[1] linked_file_name[100] 'CONTENT'); it is not a ustar archive, so Python's "
               "tarfile cannot serve as cross-check; checksum = sum of header bytes with the checksum "
               "field read as 8 spaces, written as 6 octal digits + NUL + space.")
    rep.assume("solver timeouts / exhausted queues give fewer solutions (inconclusive), never a "
               "violation; the number of solutions per job is capped by count, the wall budget is only "
               "a watchdog, so results do not depend on pool scheduling unless a watchdog fires. "
               "Workers are spawned with PYTHONHASHSEED=<seed> and random.seed(seed + job index); "
               "Z3-internal nondeterminism (time-outs) is outside this control (see C22).")


def _nontrivial(f: str, info: Dict[str, Any]) -> bool:
    st = info.get("stats") or {}
    if f == "csv":
        return st.get("rows", 0) >= 2
    if f == "xml":
        return bool(st.get("openclose_pairs") or st.get("prefixed_names") or st.get("multi_attr")
                    or st.get("xmlns_decls"))
    if f == "rest":
        return bool(st.get("titles") or st.get("refs") or st.get("enum_items_max", 0) >= 2)
    return True


def run(rep, tier: str, seed: int) -> None:
    tier = tier if tier in PLAN else "quick"
    _texts(rep, tier)
    _sanity(rep)
    jobs = _jobs(tier, seed)
    results: Dict[int, Dict[str, Any]] = {}
    sp = _SeededPool(NPROC, seed)
    pool = sp.pool
    try:
        asyncs = [(j, pool.apply_async(worker, (j,))) for j in jobs]
        rounds = (len(jobs) + NPROC - 1) // NPROC
        deadline = time.time() + (rounds + 1) * (max(j["budget"] for j in jobs) + 30)
        for j, a in asyncs:
            try:
                results[j["idx"]] = a.get(timeout=max(1.0, deadline - time.time()))
            except mp.TimeoutError:
                results[j["idx"]] = dict(idx=j["idx"], formalization=j["formalization"],
                                         variant=j["variant"], cost=j["cost"], seed=j["seed"],
                                         solutions=[], end="pool-timeout", error=None, elapsed=None)
            except Exception as e:
                results[j["idx"]] = dict(idx=j["idx"], formalization=j["formalization"],
                                         variant=j["variant"], cost=j["cost"], seed=j["seed"],
                                         solutions=[], end="error", error=f"{type(e).__name__}: {e}",
                                         elapsed=None)
    finally:
        sp.close()

    per: Dict[Tuple[str, str], int] = {}
    nsamples: Dict[str, int] = {}
    for j in jobs:                                   # fixed order: job index
        r = results[j["idx"]]
        f, variant, cost = r["formalization"], r["variant"], r["cost"]
        tag = f"{f}/{variant}/{cost}/seed{r['seed']}"
        sec = f
        rep.section(sec, jobs=1, solutions=len(r["solutions"]))
        rep.section(sec, **{"end_" + r["end"]: 1})
        if r["end"] in ("timeout", "watchdog", "pool-timeout"):
            rep.note_inconclusive(f"{tag}: {r['end']} after {len(r['solutions'])} of {j['cap']} solutions")
        elif r["end"] == "stop":
            rep.note_inconclusive(f"{tag}: solver queue exhausted (StopIteration) after "
                                  f"{len(r['solutions'])} of {j['cap']} solutions")
        elif r["end"] == "error":
            # the solver raised instead of returning a solution: not a wrong solution, but the
            # family did not run as intended -> report, never silently
            rep.note_inconclusive(f"{tag}: solver raised {r['error']} after {len(r['solutions'])} solutions")
            rep.section(sec, solver_exceptions=1)
        per[(f, cost)] = per.get((f, cost), 0) + len(r["solutions"])
        for n, sol in enumerate(r["solutions"]):
            s, info = sol["s"], sol["info"]
            h = hashlib.sha1(s.encode("utf-8", "replace")).hexdigest()[:16]
            nt = _nontrivial(f, info)
            sample = None
            if nt and nsamples.get(f, 0) < 3:
                nsamples[f] = nsamples.get(f, 0) + 1
                shown = re.sub("\x00{4,}", lambda m_: "<NUL*%d>" % len(m_.group(0)), s)
                sample = dict(formalization=f, variant=variant, cost=cost, seed=r["seed"], n=n,
                              solution=shown if len(shown) <= 200 else shown[:200] + "...",
                              verdict="valid" if not sol["breaches"] else sol["breaches"][0][0])
            rep.case(key=(f, variant, cost, h), nontrivial=nt, sample=sample)
            rep.section(sec, nontrivial=1 if nt else 0)
            st = info.get("stats") or {}
            if f == "csv":
                rep.section(sec, multi_record=1 if st.get("rows", 0) >= 2 else 0,
                            multi_column=1 if st.get("cols", 0) >= 2 else 0,
                            quoted_delimiter_or_newline=1 if st.get("quoted_special") else 0)
            elif f == "xml":
                rep.section(sec, with_openclose_pair=1 if st.get("openclose_pairs") else 0,
                            with_prefixed_name=1 if st.get("prefixed_names") else 0,
                            with_xmlns_decl=1 if st.get("xmlns_decls") else 0,
                            with_multi_attr_tag=1 if st.get("multi_attr") else 0,
                            etree_accepts=1 if info.get("etree_ok") else 0)
                if info.get("outside"):
                    rep.section(sec, **{"outside_" + info["outside"]: 1})
                    rep.note_inconclusive(f"{tag}#{n}: xml.etree rejects {s[:100]!r} "
                                          f"({info.get('etree_class')}) for a reason outside the "
                                          f"formalized rules: {info['outside']}")
            elif f == "rest":
                rep.section(sec, with_title=1 if st.get("titles") else 0,
                            with_reference=1 if st.get("refs") else 0,
                            with_label=1 if st.get("labels") else 0,
                            with_enumeration_of_2plus=1 if st.get("enum_items_max", 0) >= 2 else 0)
                for cls, cnt in sorted((info.get("docutils_other") or {}).items()):
                    rep.section("rest.docutils_other", **{cls: cnt})
            elif f == "tar":
                rep.section(sec, multi_entry=1 if st.get("entries", 0) >= 2 else 0,
                            with_link_entry=1 if st.get("links") else 0,
                            with_link_target=1 if st.get("links_with_target") else 0)
            if info.get("inconsistent"):
                rep.checker_error(f"{tag}#{n}: validators disagree on {s[:100]!r}: {info['inconsistent']}")
            seen = set()
            for cls, detail in sol["breaches"]:
                if cls in seen:
                    continue
                seen.add(cls)
                sig = f"solve:{f}:{cls}" if variant in ("colno", "all", "wf+ns+redef") \
                    else f"solve:{f}[{variant}]:{cls}"
                what = (f"{tag} solution #{n}: {_short(s)} expected: valid under {SPEC[f][:90]}...; "
                        f"observed: {detail}")
                rep.violation(sig, what, {
                    "module": MODULE,
                    "case": {"formalization": f, "variant": variant, "input": s, "rule": cls,
                             "facts": sol.get("facts"), "tree": sol.get("tree"),
                             "job": {k: j[k] for k in ("formalization", "variant", "cost", "seed",
                                                       "cap", "budget")},
                             "solution_index": n, "hashseed": seed}})

    for f in FAMILY_ORDER:
        for cost in PLAN[tier][f]:
            got = per.get((f, cost), 0)
            rep.section("solutions_per_cost_setting", **{f"{f}_{cost}": got})
            if got == 0:
                rep.checker_error(f"family {f}/{cost} produced zero solutions (vacuous)")
            elif got < MIN_SOLUTIONS[tier] and cost != "tests":
                rep.note_inconclusive(f"family {f}/{cost}: only {got} solutions "
                                      f"(< {MIN_SOLUTIONS[tier]} intended for tier {tier})")
        sec = rep.sections.get(f, {})
        if sum(per.get((f, c), 0) for c in PLAN[tier][f]) > 0 and not sec.get("nontrivial"):
            rep.checker_error(f"family {f}: no non-trivial solution was generated (rules never exercised)")


def _short(s: str, n: int = 200) -> str:
    r = repr(s)
    return r if len(r) <= n else r[:n] + f"...(len {len(s)})"


# ---------------------------------------------------------------------------
# replay
# ---------------------------------------------------------------------------

def _rebuild(plain):
    from isla.derivation_tree import DerivationTree

    def rec(n):
        return DerivationTree(n[0], None if n[1] is None else [rec(c) for c in n[1]])

    sys.setrecursionlimit(max(sys.getrecursionlimit(), 20000))
    return rec(plain)


def replay(path: str) -> int:
    with open(path, encoding="utf-8") as fh:
        payload = json.load(fh)
    case = payload["case"]
    f, variant, s, rule = case["formalization"], case.get("variant") or "all", case["input"], case["rule"]
    print(f"replay {payload.get('signature')}: formalization={f} variant={variant} rule={rule}")
    print(f"  input: {_short(s, 400)}")
    breaches, info = judge(f, variant, s, case.get("facts"))
    classes = sorted({b[0] for b in breaches})
    tree_rules = {"open-tree", "str-mismatch", "tree-not-in-grammar"}
    validator_rejects = rule in classes or (rule in tree_rules and case.get("tree") is not None)
    print(f"  independent validator: {'REJECTS' if breaches else 'accepts'} {classes}")
    for c, d in breaches[:6]:
        print(f"    {c}: {d[:300]}")
    # ISLa's own opinion about the stored input
    isla_accepts: Optional[bool] = None
    try:
        import warnings
        warnings.filterwarnings("ignore")
        _, solver = _build(f, variant if f == "xml" else "all", "std", 60)
        if case.get("tree") is not None:
            tree = _rebuild(case["tree"])
            assert str(tree) == s, "stored tree does not spell the stored input"
            isla_accepts = bool(solver.check(tree))
            print(f"  ISLaSolver.check(stored solution tree) = {isla_accepts}")
        else:
            isla_accepts = bool(solver.check(s))
            print(f"  ISLaSolver.check(input string) = {isla_accepts}")
    except Exception as e:
        print(f"  ISLaSolver.check raised {type(e).__name__}: {e}")
    if validator_rejects and isla_accepts:
        print("  -> still failing: ISLa accepts an input that the independent validator rejects")
        return 1
    # ISLa's evaluator disowns the input (or could not judge): does the solver still GENERATE it?
    job = case.get("job")
    if validator_rejects and job:
        print("  re-running the generating job (same seed / cost setting) ...")
        j = dict(job)
        j["idx"] = 0
        j["cap"] = min(int(job["cap"]), int(case.get("solution_index", job["cap"])) + 25)
        sp = _SeededPool(1, int(case.get("hashseed", 0)))
        try:
            r = sp.pool.apply_async(worker, (j,)).get(timeout=j["budget"] + 60)
        except Exception as e:
            print(f"  job did not finish: {type(e).__name__}")
            return 0
        finally:
            sp.close()
        hits = [(n, sol) for n, sol in enumerate(r["solutions"])
                if any(b[0] == rule for b in sol["breaches"])]
        print(f"  job ended '{r['end']}' with {len(r['solutions'])} solutions; "
              f"{len(hits)} of them breach rule {rule}")
        if hits:
            n, sol = hits[0]
            print(f"    e.g. #{n}: {_short(sol['s'], 300)} -> {sol['breaches'][0]}")
            return 1
    print("  -> not reproduced")
    return 0
