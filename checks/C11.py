"""C11 -- BNF print/parse: bounded (nothing proved: chains of str.replace are undecided in z3/cvc5)."""
from vlib.harness import proved_tier
from checks import bounded_C11

LEVEL = "exploration"


def run(rep, tier, seed):
    bounded_C11.run(rep, tier, seed)


def replay(path):
    import json
    d = json.load(open(path))
    if d.get("module", "").startswith("checks.bounded_") or "case" in d:
        return bounded_C11.replay(path)
    from vlib.harness import replay_file
    return replay_file(path)
