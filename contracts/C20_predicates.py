# Library semantic predicates (C20, proved part): the DECISION LOGIC of
# crop / ljust / rjust / *_crop / extend_crop, count and octal_to_decimal on
# closed argument trees, from the real text of isla_predicates.crop / just /
# count / octal_to_dec_both_trees.  Dependencies with ASSUMED contracts, over
# ghost functions:
#   TreeStr(t)              -- str(t), the string of a derivation tree
#   member_nt(nt, s)        -- s is in the language of nonterminal nt (parser, C10)
#   the tree built from the parser's result spells the parsed string and is
#   rooted in the requested nonterminal (C10/C16)
#   int(s), int(s, 8)       -- uninterpreted is_numeral / str2int (library)
#   str.ljust / str.rjust   -- CPython semantics (library)
# Result view of SemPredEvalResult: kind 0 = False, 1 = True, 2 = not ready, 3 = {key: tree} binding.

P = "isla/isla_predicates.py::"
DTREE = "Rec:DerivationTree"
SPR = "Rec:SemPredEvalResult"

record("SemPredEvalResult", module="isla.language", file="isla/language.py",
       fields={"kind": "Int", "key_tree": DTREE, "val": DTREE}, value_eq=False)
record("Variable", module="isla.language", file="isla/language.py", fields={"name": "Any"}, value_eq=False)

spec("TreeStr", "t", "uf_str('treestr', t)", returns="Str")

RES = "isla/language.py::SemPredEvalResult."
WHY_DC = "SemPredEvalResult is a @dataclass with the single field `result`; this is its abstract view (stores its argument)"
contract(RES + "__init__@none", props=["C20"], types={"self": SPR, "result": "None"}, arg_order=["self", "result"],
         ensures="self.kind == 2", assumed=True, why_assumed=WHY_DC, path_hints={"callable_variant": True})
contract(RES + "__init__@bool", props=["C20"], types={"self": SPR, "result": "Bool"}, arg_order=["self", "result"],
         ensures="self.kind == ite(result, 1, 0)", assumed=True, why_assumed=WHY_DC,
         path_hints={"callable_variant": True})
contract(RES + "__init__@binding", props=["C20"], types={"self": SPR, "result": f"Dict1[{DTREE},{DTREE}]"},
         arg_order=["self", "result"],
         ensures="self.kind == 3 and self.key_tree == result[0] and self.val == result[1]", assumed=True,
         why_assumed=WHY_DC, path_hints={"callable_variant": True})

contract("isla/derivation_tree.py::DerivationTree.is_complete", props=["C20", "C16"], types={"self": DTREE},
         returns="Bool", requires="TreeInv(self)",
         ensures={"value": "result == (not Open(self))", "invariant": "TreeInv(self)"},
         path_hints={"modifies": ["_DerivationTree__is_open"]}, crosscheck=False)

# the parser obtained from mk_parser(nt), applied to s, first result -- and the tree built from it
contract(P + "mk_parser.<locals>.Parser.<locals>.result@first", props=["C20"],
         types={"nt": "Any", "inp": "Str"}, returns="Any",
         raises={"SyntaxError": "not uf_bool('member_nt', nt, inp)"},
         ensures="uf_str('pt_str', result) == inp and uf_sort('pt_nt', 'Any', result) == nt",
         assumed=True,
         why_assumed="mk_parser(grammar)(nt)(s)[0]: EarleyParser for <start> ::= nt; SyntaxError iff s is not in the "
                     "language of nt, the tree spells s (property C10)")
contract(P + "from_parse_tree_subtree0", props=["C20"], types={"pt": "Any"}, returns=DTREE,
         ensures="TreeStr(result) == uf_str('pt_str', pt) and result._DerivationTree__value == uf_sort('pt_nt', 'Any', pt) "
                 "and not Open(result) and TreeInv(result)",
         assumed=True,
         why_assumed="DerivationTree.from_parse_tree(pt).get_subtree((0,)) of a parse tree <start> -> nt -> ...: the "
                     "closed subtree rooted in nt, spelling the parsed string (C10/C16 bounded batteries)")

CALLS = {"str(tree)": "uf_str('treestr', tree)", "str(width)": "uf_str('treestr', width)",
         "mk_parser(tree.value)": "None",
         "parser(unparsed_output)[0]": "call:mk_parser.<locals>.Parser.<locals>.result@first|tree.value, unparsed_output",
         "parser(unparsed[:width])[0]": "call:mk_parser.<locals>.Parser.<locals>.result@first|tree.value, unparsed[:width]",
         "DerivationTree.from_parse_tree(parse_tree).get_subtree((0,))": "call:from_parse_tree_subtree0|parse_tree"}

S_ = "TreeStr(tree)"
PROPOSAL = ("implies(result.kind == 3, result.key_tree == tree and len(TreeStr(result.val)) == W and "
            "not Open(result.val) and result.val._DerivationTree__value == tree._DerivationTree__value)")


def just_contract(tag, width_type, W, extra_req, fill_type):
    fill_none = fill_type == "None"
    req = f"TreeInv(tree) and not Open(tree) and {W} >= 0" + (" and " + extra_req if extra_req else "")
    raises = {}
    if fill_none:
        raises["AssertionError"] = f"len({S_}) == 0 or exists(i, 0, len({S_}), {S_}[i] != {S_}[0])"
    else:
        raises["TypeError"] = "len(fill_char) != 1"
    contract(P + "just@" + tag, props=["C20"],
             types={"ljust": "Bool", "crop": "Bool", "mk_parser": "Any", "tree": DTREE, "width": width_type,
                    "fill_char": fill_type},
             returns=SPR, requires=req, raises=raises,
             ensures={"ready": "result.kind != 2",
                      "true_iff_already_has_width": f"(result.kind == 1) == (len({S_}) == {W})",
                      "proposal_has_requested_width": PROPOSAL.replace("W", W),
                      "padding_keeps_the_argument":
                          f"implies(result.kind == 3 and len({S_}) < {W}, "
                          f"forall(i, 0, len({S_}), TreeStr(result.val)[ite(ljust, i, i + {W} - len({S_}))] == {S_}[i]))",
                      "no_proposal_without_crop_when_too_long":
                          f"implies(not crop and len({S_}) > {W}, result.kind == 0)"},
             path_hints={"calls": CALLS, "modifies": []}, crosscheck=False,
             note="requires: closed argument, non-negative width (a width; the statement is silent on negative ones)")


W_TREE = "int(TreeStr(width))"
for tag, wtype, W, extra in (("int", "Int", "width", ""),
                             ("tree", DTREE, W_TREE, "TreeInv(width) and not Open(width) and uf_bool('is_numeral10', TreeStr(width))")):
    just_contract(tag + "_fill", wtype, W, extra, "Str")
    just_contract(tag + "_nofill", wtype, W, extra, "None")


def crop_contract(tag, width_type, W, extra_req):
    req = f"TreeInv(tree) and not Open(tree) and {W} >= 0" + (" and " + extra_req if extra_req else "")
    contract(P + "crop@" + tag, props=["C20"],
             types={"mk_parser": "Any", "tree": DTREE, "width": width_type}, returns=SPR, requires=req,
             ensures={"ready": "result.kind != 2",
                      "true_iff_needs_no_cropping": f"(result.kind == 1) == (len({S_}) <= {W})",
                      "proposal_has_requested_width": PROPOSAL.replace("W", W),
                      "proposal_is_the_prefix":
                          f"implies(result.kind == 3, forall(i, 0, {W}, TreeStr(result.val)[i] == {S_}[i]))"},
             path_hints={"calls": CALLS}, crosscheck=False)


crop_contract("int", "Int", "width", "")
crop_contract("tree", DTREE, W_TREE, "TreeInv(width) and not Open(width) and uf_bool('is_numeral10', TreeStr(width))")

# ---- count: decision on closed trees ---------------------------------------------------------------
# n = number of needle nodes (len(in_tree.filter(...))), m = "some open leaf can still derive the needle";
# both are computed by code outside the subset and enter as ghost parameters; on a closed tree there is no
# open leaf, so m is False (pre-condition).  Proved: the verdict is TRUE exactly when n equals the number.
FILTER = "len(in_tree.filter(lambda t: t.value == needle))"
ANY = "any((reachable(graph, leaf_nonterminal, needle) for leaf_nonterminal in leaf_nonterminals))"
for tag, ntype, numstr, req in (("closed_str", "Str", "num", ""),
                                ("closed_leaf", DTREE, "num_value_str", "")):
    contract(P + "count@" + tag, props=["C20"],
             types={"graph": "Any", "in_tree": DTREE, "needle": "Any", "num": ntype, "negate": "Bool"},
             closure={"num_needle_occurrences": "Int", "more_needles_possible": "Bool", "num_value_str": "Str"},
             returns=SPR,
             requires="num_needle_occurrences >= 0 and not more_needles_possible" + (" and (num._DerivationTree__children is None or "
                                            "len(num._DerivationTree__children) == 0)" if ntype == DTREE else ""),
             raises={"AssertionError": f"not uf_bool('is_numeral10', {numstr})"},
             fragment=dict(rule="between_stmts", starts_with="if isinstance(num, Variable)", until="if negate:"),
             ensures={"ready": "result.kind != 2", "no_proposal": "result.kind != 3",
                      "true_iff_count_matches": f"(result.kind == 1) == (num_needle_occurrences == int({numstr}))"},
             path_hints={"ghost_exprs": {"num.value": "num_value_str"}},
             crosscheck=False,
             note="fragment from `if isinstance(num, Variable)` up to `if negate:` (tree completion: bounded C14/C20)")

# ---- octal_to_decimal on two closed trees ------------------------------------------------------------
contract(P + "octal_to_dec_both_trees", props=["C20"],
         types={"octal": DTREE, "decimal": DTREE, "_1": "Any", "_2": "Any"}, returns=f"Opt[{SPR}]",
         requires="TreeInv(octal) and TreeInv(decimal) and not Open(octal) and not Open(decimal) and "
                  "uf_bool('is_numeral10', TreeStr(decimal)) and uf_bool('is_numeral8', TreeStr(octal))",
         ensures={"answers": "result is not None and result.kind != 2 and result.kind != 3",
                  "true_iff_same_number":
                      "(result.kind == 1) == (int(TreeStr(octal), 8) == int(TreeStr(decimal)))"},
         path_hints={"calls": {"str(decimal)": "uf_str('treestr', decimal)", "str(octal)": "uf_str('treestr', octal)"}},
         crosscheck=False)
