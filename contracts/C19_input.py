# cli.get_input_string (C19, proved part): how the content of an input FILE becomes the input string.
# The file's content is a ghost string (the dict lookup `files[possible_inputs[0]]` is outside the subset).
# Proved from the real text of the two statements that follow: exactly ONE trailing line break is removed (the one a
# text editor or `isla solve > file` appends) -- a word that itself ends with a line break keeps it; anything else is
# passed on unchanged; no IndexError on an empty file.
contract("isla/cli.py::get_input_string@file_content", props=["C19"],
         types={}, closure={"content": "Str"}, returns="Any",
         fragment=dict(rule="inner_block", starts_with="inp = files[possible_inputs[0]]"),
         ensures={"one_trailing_newline_removed":
                      "implies(len(content) > 0 and content[len(content) - 1] == '\\n', "
                      "final_inp == content[:len(content) - 1])",
                  "otherwise_unchanged":
                      "implies(not (len(content) > 0 and content[len(content) - 1] == '\\n'), final_inp == content)"},
         path_hints={"ghost_exprs": {"files[possible_inputs[0]]": "content"}},
         crosscheck=False)
