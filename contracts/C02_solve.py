# ISLaSolver.solve(): the two sticky exits (C02).  Only the paths named in each
# contract are verified (the elimination chain inside the loop is not); the
# selection is mechanical (loops_mode) and is listed in the evidence.

S = "isla/solver.py::ISLaSolver.solve"
record("ISLaSolver", module="isla.solver", file="isla/solver.py",
       fields={"timeout_seconds": "Opt[Int]", "start_time": "Opt[Int]", "queue": "List[Any]",
               "solutions": "List[Any]", "step_cnt": "Int",
               "formula": "Any", "grammar": "Any", "top_constant": "Any"},
       value_eq=False, mutable=["start_time", "step_cnt", "queue", "solutions", "timeout_seconds"])

# P1 exhaustion: with an empty queue and no pending solution every call raises StopIteration and
# changes nothing but start_time -- hence the state stays exhausted and the next call does the same.
contract(S + "@exhausted", props=["C02"], types={"self": "Rec:ISLaSolver"}, returns="Any",
         closure={"now": "Int"},
         requires="len(self.queue) == 0 and len(self.solutions) == 0",
         raises={"StopIteration": "True"},
         ensures={"never_returns": "False"},
         path_hints={"loops_mode": {0: "skip"}, "modifies": ["start_time"], "calls": {"time.time()": "now"}},
         crosscheck=False,
         note="queue and solutions are not written on this path (frame obligations), so the pre-condition is stable: sticky")

# P2 timeout: once the clock has passed the deadline and work is still queued, the first loop iteration
# raises TimeoutError before touching queue/solutions; with a monotone clock the condition persists.
contract(S + "@timeout", props=["C02"], types={"self": "Rec:ISLaSolver"}, returns="Any",
         closure={"now": "Int"},
         requires="self.timeout_seconds is not None and self.start_time is not None and len(self.queue) > 0 and "
                  "now - self.start_time > self.timeout_seconds",
         raises={"TimeoutError": "True"},
         ensures={"never_returns": "False"},
         path_hints={"loops_mode": {0: "first_iteration"}, "modifies": ["step_cnt"],
                     "calls": {"time.time()": "now"}},
         crosscheck=False,
         note="assumes int(time.time()) is an integer clock `now` that never decreases between calls")


# ---- the nested solve() of the solver's unsat support leaves no trace (C01, C02) ------------------------------------
# process_new_state checks an existential conjunct on its own by running self.solve() on a one-element queue.  The
# block around that call saves queue / solutions / start_time / timeout_seconds and restores them in `finally`.
# Proved from the real text of that block (a loop body): on every normal exit (falling through, or `break` after the
# inner StopIteration) the four attributes have the values they had before -- whatever the nested solve() did to
# them (its effect is havoc: ASSUMED to write only those attributes and step_cnt, and to end by returning or by
# StopIteration / TimeoutError).  So trees found by the nested run can never leak into the solutions handed out.
contract(S + "@nested", props=["C01", "C02"], types={"self": "Rec:ISLaSolver"}, returns="Any",
         raises={"StopIteration": "uf_bool('nested_exhausted', self)",
                 "TimeoutError": "uf_bool('nested_timeout', self) and not uf_bool('nested_exhausted', self)"},
         ensures="True", assumed=True,
         path_hints={"callable_variant": True,
                     "modifies": {"self": ["queue", "solutions", "start_time", "step_cnt"]}},
         why_assumed="the nested ISLaSolver.solve(): arbitrary effect on queue / solutions / start_time / step_cnt; it "
                     "returns a tree or raises StopIteration / TimeoutError (C02)")
contract("isla/solver.py::ISLaSolver.process_new_state@unsat_check_frame", props=["C01", "C02"],
         types={"self": "Rec:ISLaSolver"},
         closure={"q0": "List[Any]", "s0": "List[Any]", "t0": "Opt[Int]", "to0": "Opt[Int]", "now": "Int",
                  "existential_formula": "Any", "new_state": "Any"},
         returns="Any",
         requires="q0 == self.queue and s0 == self.solutions and t0 == self.start_time and to0 == self.timeout_seconds",
         fragment=dict(rule="inner_block", starts_with="old_start_time = self.start_time"),
         raises={"TimeoutError": "True"},
         ensures={"queue_restored": "self.queue == q0", "solutions_restored": "self.solutions == s0",
                  "start_time_restored": "self.start_time == t0", "timeout_restored": "self.timeout_seconds == to0"},
         path_hints={"modifies": {"self": ["queue", "solutions", "start_time", "timeout_seconds", "step_cnt"]},
                     "calls": {"time.time()": "now", "SolutionState(existential_formula, new_state.tree)": "None",
                               "heapq.heappush(self.queue, (0, check_state))": "None",
                               "new_states.remove(new_state)": "None"}},
         crosscheck=False,
         note="a TimeoutError of the nested run propagates (after the restoring `finally`); exceptional exits have no "
              "post-condition in this engine")
