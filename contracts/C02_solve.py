# ISLaSolver.solve(): the two sticky exits (C02).  Only the paths named in each
# contract are verified (the elimination chain inside the loop is not); the
# selection is mechanical (loops_mode) and is listed in the evidence.

S = "isla/solver.py::ISLaSolver.solve"
record("ISLaSolver", module="isla.solver", file="isla/solver.py",
       fields={"timeout_seconds": "Opt[Int]", "start_time": "Opt[Int]", "queue": "List[Any]",
               "solutions": "List[Any]", "step_cnt": "Int",
               "formula": "Any", "grammar": "Any", "top_constant": "Any"},
       value_eq=False, mutable=["start_time", "step_cnt"])

# P1 exhaustion: with an empty queue and no pending solution every call raises StopIteration and
# changes nothing but start_time -- hence the state stays exhausted and the next call does the same.
contract(S + "@exhausted", props=["C02"], types={"self": "Rec:ISLaSolver"}, returns="Any",
         closure={"now": "Int"},
         requires="len(self.queue) == 0 and len(self.solutions) == 0",
         raises={"StopIteration": "True"},
         ensures={"never_returns": "False"},
         path_hints={"loops_mode": {0: "skip"}, "modifies": ["start_time"], "calls": {"time.time()": "now"}},
         crosscheck=False,
         note="queue and solutions are not written on this path (frame obligations), so the pre-condition is stable: sticky")

# P2 timeout: once the clock has passed the deadline and work is still queued, the first loop iteration
# raises TimeoutError before touching queue/solutions; with a monotone clock the condition persists.
contract(S + "@timeout", props=["C02"], types={"self": "Rec:ISLaSolver"}, returns="Any",
         closure={"now": "Int"},
         requires="self.timeout_seconds is not None and self.start_time is not None and len(self.queue) > 0 and "
                  "now - self.start_time > self.timeout_seconds",
         raises={"TimeoutError": "True"},
         ensures={"never_returns": "False"},
         path_hints={"loops_mode": {0: "first_iteration"}, "modifies": ["step_cnt"],
                     "calls": {"time.time()": "now"}},
         crosscheck=False,
         note="assumes int(time.time()) is an integer clock `now` that never decreases between calls")
