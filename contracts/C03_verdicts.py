# Verdict combination at the end of evaluate_quantified_formula (C03/C06).
# The matches and the potential-match analysis (trie, match expressions,
# grammar reachability) are outside the subset: the verdicts of the body on the
# matches (`verdicts`) and `has_potential_matches` are ghost parameters.  What
# is proved: for EVERY such input the function combines them as the
# specification demands --
#   closed tree (no potential match): forall = Kleene conjunction, exists = Kleene disjunction
#   potential match:  forall is UNKNOWN;  exists is TRUE if some match is TRUE, else UNKNOWN
# so a definite verdict on an open tree is never contradicted by further matches.

E = "isla/evaluator.py::evaluate_quantified_formula"
TV = "Rec:ThreeValuedTruth"
spec("KAll", "vs", "ite(exists(i, 0, len(vs), vs[i].val == 0), 0, ite(exists(i, 0, len(vs), vs[i].val == 2), 2, 1))",
     types={"vs": f"List[{TV}]"}, returns="Int")
spec("KAny", "vs", "ite(exists(i, 0, len(vs), vs[i].val == 1), 1, ite(exists(i, 0, len(vs), vs[i].val == 2), 2, 0))",
     types={"vs": f"List[{TV}]"}, returns="Int")

GEN = ("(evaluate_legacy(formula.inner_formula, grammar, new_assignment, reference_tree, trie, graph=graph) "
       "for new_assignment in new_assignments)")
contract(E + "@verdict", props=["C03", "C06"],
         types={"formula": "Rec:Formula"}, returns=f"Opt[{TV}]",
         closure={"has_potential_matches": "Bool", "verdicts": f"List[{TV}]"},
         requires="(formula.kind == 4 or formula.kind == 5) and forall(i, 0, len(verdicts), tv_ok(verdicts[i].val))",
         fragment=dict(rule="from_stmt", starts_with="if isinstance(formula, ForallFormula)"),
         ensures={
             "answers": "result is not None",
             "forall": "implies(formula.kind == 4, result.val == ite(has_potential_matches, 2, KAll(verdicts)))",
             "exists": "implies(formula.kind == 5, result.val == "
                       "ite(KAny(verdicts) == 1 or not has_potential_matches, KAny(verdicts), 2))",
             "closed_tree_is_kleene": "implies(not has_potential_matches, "
                                      "result.val == ite(formula.kind == 4, KAll(verdicts), KAny(verdicts)))",
             "definite_only_if_stable": "implies(has_potential_matches and result.val != 2, "
                                        "formula.kind == 5 and result.val == 1 and exists(i, 0, len(verdicts), verdicts[i].val == 1))"},
         path_hints={"ghost_exprs": {GEN: "verdicts"}},
         crosscheck=False)


# ---- quantifier-elimination strategy: semantic predicates (C03) ----------------------------------------------------
# evaluate_predicates_action decides a SemanticPredicateFormula from the predicate's own verdict r (ghost: the result
# of formula.evaluate(graph), view of C20_predicates.py): FALSE -> the formula `false`, TRUE -> `true`, and only a
# predicate that is NOT READY is left open (Python False = "not evaluable here").  Proved from the real text, so a
# verdict FALSE can never be mistaken for "not ready" (which would turn it into a free Boolean).
SPR_ = "Rec:SemPredEvalResult"
for nm, k in (("ready", "self.kind != 2"), ("true", "self.kind == 1"), ("false", "self.kind == 0")):
    contract("isla/language.py::SemPredEvalResult." + nm, props=["C03", "C20"], types={"self": SPR_}, returns="Bool",
             result_is=k, assumed=True,
             why_assumed="one-line accessors of the @dataclass (`self.result is not None` / `is True` / `is False`) in the "
                         "abstract view kind 0 = False, 1 = True, 2 = None, 3 = binding")
contract("isla/evaluator.py::evaluate_predicates_action@semantic", props=["C03"],
         types={"formula": "Rec:Formula", "reference_tree": "Any", "graph": "Any"}, closure={"r": SPR_},
         returns="Any",
         requires="formula.kind == 9 and 0 <= r.kind and r.kind <= 2",
         ensures={"only_not_ready_is_left_open": "(r.kind == 2) == is_pybool(result)",
                  "not_ready_is_python_false": "implies(r.kind == 2, result == False)",
                  "false_becomes_false": "implies(r.kind == 0, is_record(result, 'Formula') and result.kind == 0 and "
                                         "result.is_false and not result.is_true)",
                  "true_becomes_true": "implies(r.kind == 1, is_record(result, 'Formula') and result.kind == 0 and "
                                       "result.is_true and not result.is_false)"},
         path_hints={"calls": {"formula.evaluate(graph)": "r", "sc.true()": "call:true|", "sc.false()": "call:false|"}},
         crosscheck=False,
         note="binding results (kind 3: numeric constants) build an SMT equation through dict/z3 operations outside the "
              "subset -- excluded by the pre-condition, covered by bounded C03")
