# Verdict combination at the end of evaluate_quantified_formula (C03/C06).
# The matches and the potential-match analysis (trie, match expressions,
# grammar reachability) are outside the subset: the verdicts of the body on the
# matches (`verdicts`) and `has_potential_matches` are ghost parameters.  What
# is proved: for EVERY such input the function combines them as the
# specification demands --
#   closed tree (no potential match): forall = Kleene conjunction, exists = Kleene disjunction
#   potential match:  forall is UNKNOWN;  exists is TRUE if some match is TRUE, else UNKNOWN
# so a definite verdict on an open tree is never contradicted by further matches.

E = "isla/evaluator.py::evaluate_quantified_formula"
TV = "Rec:ThreeValuedTruth"
spec("KAll", "vs", "ite(exists(i, 0, len(vs), vs[i].val == 0), 0, ite(exists(i, 0, len(vs), vs[i].val == 2), 2, 1))",
     types={"vs": f"List[{TV}]"}, returns="Int")
spec("KAny", "vs", "ite(exists(i, 0, len(vs), vs[i].val == 1), 1, ite(exists(i, 0, len(vs), vs[i].val == 2), 2, 0))",
     types={"vs": f"List[{TV}]"}, returns="Int")

GEN = ("(evaluate_legacy(formula.inner_formula, grammar, new_assignment, reference_tree, trie, graph=graph) "
       "for new_assignment in new_assignments)")
contract(E + "@verdict", props=["C03", "C06"],
         types={"formula": "Rec:Formula"}, returns=f"Opt[{TV}]",
         closure={"has_potential_matches": "Bool", "verdicts": f"List[{TV}]"},
         requires="(formula.kind == 4 or formula.kind == 5) and forall(i, 0, len(verdicts), tv_ok(verdicts[i].val))",
         fragment=dict(rule="from_stmt", starts_with="if isinstance(formula, ForallFormula)"),
         ensures={
             "answers": "result is not None",
             "forall": "implies(formula.kind == 4, result.val == ite(has_potential_matches, 2, KAll(verdicts)))",
             "exists": "implies(formula.kind == 5, result.val == "
                       "ite(KAny(verdicts) == 1 or not has_potential_matches, KAny(verdicts), 2))",
             "closed_tree_is_kleene": "implies(not has_potential_matches, "
                                      "result.val == ite(formula.kind == 4, KAll(verdicts), KAny(verdicts)))",
             "definite_only_if_stable": "implies(has_potential_matches and result.val != 2, "
                                        "formula.kind == 5 and result.val == 1 and exists(i, 0, len(verdicts), verdicts[i].val == 1))"},
         path_hints={"ghost_exprs": {GEN: "verdicts"}},
         crosscheck=False)
