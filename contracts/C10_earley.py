# EarleyParser (C10, proved part): SOUNDNESS of the chart -- every state the parser puts into a column is
# justified by a derivation, hence a string is only accepted (and a tree only yielded) if the start symbol derives
# it.  Fixed for the proof (arbitrary): one parser object, its grammar and one input of N-1 letters.
# Ghost vocabulary (uninterpreted; the axioms below are the DEFINITION of derivation in a context-free grammar,
# true of the real derivability relation, and only ever used in the sound direction):
#   NT(sym)           sym is a nonterminal of the grammar              (sym in self.cgrammar)
#   Rule(A, e)        e is an alternative of A                         (e in self.cgrammar[A])
#   Letter(j)         the j-th input letter = letter of column j       (chart[j].letter)
#   D(sym, i, j)      sym derives the input letters i+1..j
#   DS(e, k, i, j)    the first k symbols of alternative e derive the letters i+1..j
#   ChartCol(i)       column i of the chart;  N = number of columns
# Alternatives (tuples of symbols) are an abstract data type `Expr` with length and element access.
# Completeness (every member is accepted) is NOT proved -- it is decided by the bounded C10 check.

PA = "isla/parser.py::"
COL, STA, EXP, EP = "Rec:Column", "Rec:State", "Rec:Expr", "Rec:EarleyParser"

record("Expr", module="builtins", fields={}, value_eq=False)
record("Column", module="isla.parser", file="isla/parser.py",
       fields={"index": "Int", "letter": "Any", "states": f"List[{STA}]", "_unique": "Any"},
       value_eq=False, mutable=["states"])
record("State", module="isla.parser", file="isla/parser.py",
       fields={"name": "Any", "expr": EXP, "dot": "Int", "s_col": COL, "e_col": f"Opt[{COL}]"},
       value_eq=False, mutable=["e_col"], defaults={"e_col": "None"}, bases=["Item"])
record("EarleyParser", module="isla.parser", file="isla/parser.py",
       fields={"cgrammar": "Any", "epsilon": "Any", "log": "Bool"}, value_eq=False)

spec("ELen", "e", "uf_int('expr_len', e)", returns="Int")
spec("EAt", "e, k", "uf_sort('expr_at', 'Any', e, k)", returns="Any")
spec("NT", "sym", "uf_bool('is_nonterminal', sym)")
spec("Rule", "a, e", "uf_bool('rule', a, e)")
spec("Letter", "j", "uf_sort('letter', 'Any', j)", returns="Any")
spec("D", "sym, i, j", "uf_bool('derives', sym, i, j)")
spec("DS", "e, k, i, j", "uf_bool('derives_prefix', e, k, i, j)")
spec("ChartCol", "i", "uf_sort('chart_col', 'Column', i)", returns=COL)
spec("N", "", "uf_int('chart_len')", returns="Int")

axiom("expr_len_nonneg", props=["C10"], types={"e": EXP}, body="ELen(e) >= 0", why="a tuple has a non-negative length")
axiom("derives_prefix_empty", props=["C10"], types={"e": EXP, "i": "Int"}, body="DS(e, 0, i, i)",
      why="definition: the empty prefix of an alternative derives the empty string")
axiom("derives_prefix_step", props=["C10"], types={"e": EXP, "k": "Int", "i": "Int", "m": "Int", "j": "Int"},
      body="implies(DS(e, k, i, m) and 0 <= k and k < ELen(e) and D(EAt(e, k), m, j), DS(e, k + 1, i, j))",
      why="definition: a derived prefix is extended by a derivation of the next symbol")
axiom("derives_terminal", props=["C10"], types={"sym": "Any", "j": "Int"},
      body="implies(not NT(sym) and j >= 0 and Letter(j + 1) == sym, D(sym, j, j + 1))",
      why="definition: a terminal symbol derives exactly itself (single-character tokens)")
axiom("derives_rule", props=["C10"], types={"a": "Any", "e": EXP, "i": "Int", "j": "Int"},
      body="implies(Rule(a, e) and DS(e, ELen(e), i, j), D(a, i, j))",
      why="definition: a nonterminal derives what one of its alternatives derives")
axiom("nullable_sound", props=["C10"], types={"sym": "Any", "j": "Int"},
      body="implies(uf_bool('nullable', sym), D(sym, j, j))",
      why="glue ASSUMED: self.epsilon is nullable(self.cgrammar) (EarleyParser.__init__, one line), and a symbol that "
          "derives the empty string (Eps) does so at every input position.  That nullable() returns only Eps-symbols, "
          "and all of them, IS proved below (nullable_ / fixpoint.helper); nullable()'s own three lines (rules(), the "
          "start set {EPSILON}, the decorator) are not")

contract(PA + "Expr.__len__", props=["C10"], types={"self": EXP}, returns="Int", result_is="ELen(self)",
         assumed=True, why_assumed="abstract data type view of a tuple of grammar symbols")
contract(PA + "Expr.__getitem__", props=["C10"], types={"self": EXP, "k": "Int"}, returns="Any",
         requires="0 <= k and k < ELen(self)", result_is="EAt(self, k)", assumed=True,
         why_assumed="abstract data type view of a tuple of grammar symbols; a negative index is excluded by the "
                     "pre-condition (Python would wrap around)")
contract(PA + "EarleyParser.alternatives", props=["C10"], types={"sym": "Any"}, returns=f"List[{EXP}]",
         ensures="forall(k, 0, len(result), Rule(sym, result[k]))", assumed=True,
         why_assumed="ghost reading of `self.cgrammar[sym]`: its elements are exactly what Rule(sym, .) means")

# -- a state is justified; a column / the chart only holds justified states ----------------------------------------
spec("StateOK", "st, j",
     "0 <= st.dot and st.dot <= ELen(st.expr) and Rule(st.name, st.expr) and 0 <= st.s_col.index and "
     "st.s_col.index <= j and st.s_col == ChartCol(st.s_col.index) and DS(st.expr, st.dot, st.s_col.index, j)")
spec("ColOK", "c", "c.index >= 0 and c.letter == Letter(c.index) and "
                   "forall(k, 0, len(c.states), StateOK(c.states[k], c.index))")
spec("ChartOK", "", "N() >= 1 and forall(i, 0, N(), ChartCol(i).index == i and ColOK(ChartCol(i)))")
ISCOL = "col == ChartCol(col.index) and 0 <= col.index and col.index < N()"

contract(PA + "Item.finished", props=["C10"], types={"self": STA}, returns="Bool",
         result_is="self.dot >= ELen(self.expr)", crosscheck=False)
contract(PA + "Item.at_dot", props=["C10"], types={"self": STA}, returns="Opt[Any]",
         requires="self.dot >= 0",
         ensures="(result is None) == (self.dot >= ELen(self.expr)) and "
                 "implies(result is not None, result == EAt(self.expr, self.dot))", crosscheck=False)
contract(PA + "State.advance", props=["C10"], types={"self": STA}, returns=STA,
         ensures="result.name == self.name and result.expr == self.expr and result.dot == self.dot + 1 and "
                 "result.s_col == self.s_col", crosscheck=False)

contract(PA + "Column.add", props=["C10"], types={"self": COL, "state": STA}, returns="Any",
         requires="ColOK(self) and StateOK(state, self.index)",
         ensures={"column_stays_justified": "ColOK(self)"},
         path_hints={"modifies": {"self": ["states"], "state": ["e_col"]}, "untracked_fields": ["_unique"]},
         crosscheck=False,
         note="nothing but self.states and state.e_col is written (frame obligations): other columns are untouched")

MODS = {"modifies": {"col": ["states"]}}
CALLS = {"self.cgrammar[sym]": "call:EarleyParser.alternatives|sym", "tuple(alt)": "alt",
         "sym in self.epsilon": "uf_bool('nullable', sym)", "sym in self.cgrammar": "NT(sym)"}
ARB = dict(mode="growing", invariant="ChartOK()", havoc_fields=["Column.states", "State.e_col"])

contract(PA + "EarleyParser.scan", props=["C10"], types={"self": EP, "col": COL, "state": STA, "letter": "Any"},
         requires=f"ChartOK() and {ISCOL} and col.index >= 1 and StateOK(state, col.index - 1) and "
                  "state.dot < ELen(state.expr) and letter == EAt(state.expr, state.dot) and not NT(letter)",
         ensures={"chart_stays_justified": "ChartOK()"}, path_hints=dict(MODS), crosscheck=False)
contract(PA + "EarleyParser.predict", props=["C10"], types={"self": EP, "col": COL, "sym": "Any", "state": STA},
         requires=f"ChartOK() and {ISCOL} and StateOK(state, col.index) and state.dot < ELen(state.expr) and "
                  "sym == EAt(state.expr, state.dot) and NT(sym)",
         ensures={"chart_stays_justified": "ChartOK()"},
         loops={0: dict(ARB)}, path_hints=dict(MODS, calls=CALLS), crosscheck=False)
contract(PA + "EarleyParser.earley_complete", props=["C10"], types={"self": EP, "col": COL, "state": STA},
         requires=f"ChartOK() and {ISCOL} and StateOK(state, col.index) and state.dot >= ELen(state.expr)",
         ensures={"chart_stays_justified": "ChartOK()"},
         loops={0: dict(ARB)},
         path_hints=dict(MODS, hints_after=[
             dict(after="parent_states = ",
                  clause="D(state.name, state.s_col.index, col.index) and ColOK(state.s_col)"),
             dict(after="parent_states = ",
                  clause="forall(q, 0, len(parent_states), StateOK(parent_states[q], state.s_col.index) and "
                         "parent_states[q].dot < ELen(parent_states[q].expr) and "
                         "EAt(parent_states[q].expr, parent_states[q].dot) == state.name)")]),
         crosscheck=False)
contract(PA + "EarleyParser.complete", props=["C10"], types={"self": EP, "col": COL, "state": STA},
         requires=f"ChartOK() and {ISCOL} and StateOK(state, col.index) and state.dot >= ELen(state.expr)",
         ensures={"chart_stays_justified": "ChartOK()"}, path_hints=dict(MODS), crosscheck=False)
contract(PA + "EarleyParser.fill_chart", props=["C10"], types={"self": EP, "chart": f"List[{COL}]"},
         returns=f"List[{COL}]",
         requires="ChartOK() and len(chart) == N() and forall(i, 0, N(), chart[i] == ChartCol(i)) and not self.log",
         ensures={"chart_stays_justified": "ChartOK()", "same_chart": "result == chart"},
         loops={0: dict(ARB), 1: dict(ARB)}, path_hints={"calls": CALLS, "modifies": {}}, crosscheck=False)

# acceptance: a finished start-symbol state spanning the whole input in the last column means the start symbol
# derives the input -- what parse_prefix/parse test before yielding trees
lemma("earley_accepts_only_members", props=["C10"], types={"st": STA, "k": "Int", "start": "Any"},
      hyps="ChartOK() and 0 <= k and k < len(ChartCol(N() - 1).states) and st == ChartCol(N() - 1).states[k] and "
           "st.name == start and st.s_col.index == 0 and st.dot >= ELen(st.expr)",
      goal="D(start, 0, N() - 1)")


# ---- parser.nullable: the fix-point computation behind `self.epsilon` (C10) ------------------------------------------
# Eps(sym): sym derives the empty string.  The only fact used about it is its DEFINITION as a closure under the
# rules: a symbol whose alternative consists of Eps-symbols only is Eps (pre-condition on `productions`).
# Proved from the real text: one pass of nullable_ keeps the set sound (only Eps-symbols), never shrinks it and adds
# the head of every rule whose tokens were already in the set; fixpoint's helper returns a set that is sound AND
# CLOSED under the rules -- i.e. exactly the least fix point, which contains every nullable symbol (completeness:
# by induction on the derivation, every Eps-symbol belongs to every closed set containing the base case).
# Sets of symbols are characteristic predicates; `nullables |= {A}` mutates the argument in place and the function
# returns it (modelled: the caller's variable denotes the updated set afterwards).  str(set) == str(set) is read as
# equality of the sets (ASSUMED: the text of a set that only grows changes iff the set changes).
SETT = "SetOf[Any]"
PROD = "List[Tuple[Any,TupleOf[Any]]]"
spec("Eps", "sym", "uf_bool('derives_eps', sym)")
EPS_CLOSED = ("forall(k, 0, len(productions), implies(forall(t, 0, len(productions[k][1]), Eps(productions[k][1][t])), "
              "Eps(productions[k][0])))")
SOUND = "forall_sort(x, 'Any', implies(x in {S}, Eps(x)))"
CLOSED = ("forall(k, 0, len(productions), implies(forall(t, 0, len(productions[k][1]), productions[k][1][t] in {S}), "
          "productions[k][0] in {S}))")

contract(PA + "nullable_expr", props=["C10"], types={"expr": "TupleOf[Any]", "nullables": SETT}, returns="Bool",
         result_is="forall(t, 0, len(expr), expr[t] in nullables)", crosscheck=False)
contract(PA + "nullable.<locals>.nullable_", props=["C10"], types={"nullables": SETT},
         closure={"productions": PROD, "n0": SETT}, returns=SETT,
         requires=f"{EPS_CLOSED} and n0 == nullables and " + SOUND.format(S="nullables"),
         ensures={"sound": SOUND.format(S="result"),
                  "never_shrinks": "forall_sort(x, 'Any', implies(x in n0, x in result))",
                  "one_pass_adds_every_enabled_head":
                      "forall(k, 0, len(productions), implies(forall(t, 0, len(productions[k][1]), "
                      "productions[k][1][t] in n0), productions[k][0] in result))"},
         loops={0: dict(invariant=SOUND.format(S="nullables") + " and forall_sort(x, 'Any', implies(x in n0, x in nullables)) and "
                                  "forall(k, 0, _k, implies(forall(t, 0, len(productions[k][1]), productions[k][1][t] in n0), "
                                  "productions[k][0] in nullables))")},
         path_hints={"updates_argument": "nullables"}, crosscheck=False)
contract(PA + "fixpoint.<locals>.helper", props=["C10"], types={"arg": SETT},
         closure={"productions": PROD, "a0": SETT}, returns=SETT,
         requires=f"{EPS_CLOSED} and a0 == arg and " + SOUND.format(S="arg"),
         ensures={"sound": SOUND.format(S="result"),
                  "closed_under_the_rules": CLOSED.format(S="result"),
                  "contains_the_start_set": "forall_sort(x, 'Any', implies(x in a0, x in result))"},
         loops={0: dict(invariant=SOUND.format(S="arg") + " and forall_sort(x, 'Any', implies(x in a0, x in arg))")},
         path_hints={"calls": {"f(arg)": "call:nullable.<locals>.nullable_|arg, productions=productions, n0=arg", "str(arg)": "arg", "str(arg_)": "arg_"}},
         crosscheck=False,
         note="f is the decorated function nullable_ (the only use of @fixpoint); termination is not proved")
