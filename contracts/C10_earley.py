# EarleyParser (C10, proved part): SOUNDNESS of the chart -- every state the parser puts into a column is
# justified by a derivation, hence a string is only accepted (and a tree only yielded) if the start symbol derives
# it.  Fixed for the proof (arbitrary): one parser object, its grammar and one input of N-1 letters.
# Ghost vocabulary (uninterpreted; the axioms below are the DEFINITION of derivation in a context-free grammar,
# true of the real derivability relation, and only ever used in the sound direction):
#   NT(sym)           sym is a nonterminal of the grammar              (sym in self.cgrammar)
#   Rule(A, e)        e is an alternative of A                         (e in self.cgrammar[A])
#   Letter(j)         the j-th input letter = letter of column j       (chart[j].letter)
#   D(sym, i, j)      sym derives the input letters i+1..j
#   DS(e, k, i, j)    the first k symbols of alternative e derive the letters i+1..j
#   ChartCol(i)       column i of the chart;  N = number of columns
# Alternatives (tuples of symbols) are an abstract data type `Expr` with length and element access.
# Completeness (every member is accepted) is NOT proved -- it is decided by the bounded C10 check.

PA = "isla/parser.py::"
COL, STA, EXP, EP = "Rec:Column", "Rec:State", "Rec:Expr", "Rec:EarleyParser"

record("Expr", module="builtins", fields={}, value_eq=False)
record("Column", module="isla.parser", file="isla/parser.py",
       fields={"index": "Int", "letter": "Any", "states": f"List[{STA}]", "_unique": "Any"},
       value_eq=False, mutable=["states"])
record("State", module="isla.parser", file="isla/parser.py",
       fields={"name": "Any", "expr": EXP, "dot": "Int", "s_col": COL, "e_col": f"Opt[{COL}]"},
       value_eq=False, mutable=["e_col"], defaults={"e_col": "None"}, bases=["Item"])
record("EarleyParser", module="isla.parser", file="isla/parser.py",
       fields={"cgrammar": "Any", "epsilon": "Any", "log": "Bool"}, value_eq=False)

spec("ELen", "e", "uf_int('expr_len', e)", returns="Int")
spec("EAt", "e, k", "uf_sort('expr_at', 'Any', e, k)", returns="Any")
spec("NT", "sym", "uf_bool('is_nonterminal', sym)")
spec("Rule", "a, e", "uf_bool('rule', a, e)")
spec("Letter", "j", "uf_sort('letter', 'Any', j)", returns="Any")
spec("D", "sym, i, j", "uf_bool('derives', sym, i, j)")
spec("DS", "e, k, i, j", "uf_bool('derives_prefix', e, k, i, j)")
spec("ChartCol", "i", "uf_sort('chart_col', 'Column', i)", returns=COL)
spec("N", "", "uf_int('chart_len')", returns="Int")

axiom("expr_len_nonneg", props=["C10"], types={"e": EXP}, body="ELen(e) >= 0", why="a tuple has a non-negative length")
axiom("derives_prefix_empty", props=["C10"], types={"e": EXP, "i": "Int"}, body="DS(e, 0, i, i)",
      why="definition: the empty prefix of an alternative derives the empty string")
axiom("derives_prefix_step", props=["C10"], types={"e": EXP, "k": "Int", "i": "Int", "m": "Int", "j": "Int"},
      body="implies(DS(e, k, i, m) and 0 <= k and k < ELen(e) and D(EAt(e, k), m, j), DS(e, k + 1, i, j))",
      why="definition: a derived prefix is extended by a derivation of the next symbol")
axiom("derives_terminal", props=["C10"], types={"sym": "Any", "j": "Int"},
      body="implies(not NT(sym) and j >= 0 and Letter(j + 1) == sym, D(sym, j, j + 1))",
      why="definition: a terminal symbol derives exactly itself (single-character tokens)")
axiom("derives_rule", props=["C10"], types={"a": "Any", "e": EXP, "i": "Int", "j": "Int"},
      body="implies(Rule(a, e) and DS(e, ELen(e), i, j), D(a, i, j))",
      why="definition: a nonterminal derives what one of its alternatives derives")
axiom("nullable_sound", props=["C10"], types={"sym": "Any", "j": "Int"},
      body="implies(uf_bool('nullable', sym), D(sym, j, j))",
      why="ASSUMED about the code: every element of self.epsilon = nullable(cgrammar) derives the empty string "
          "(parser.nullable's fix-point computation is not verified; its completeness is what seed-style bugs hit "
          "and is decided by the bounded check)")

contract(PA + "Expr.__len__", props=["C10"], types={"self": EXP}, returns="Int", result_is="ELen(self)",
         assumed=True, why_assumed="abstract data type view of a tuple of grammar symbols")
contract(PA + "Expr.__getitem__", props=["C10"], types={"self": EXP, "k": "Int"}, returns="Any",
         requires="0 <= k and k < ELen(self)", result_is="EAt(self, k)", assumed=True,
         why_assumed="abstract data type view of a tuple of grammar symbols; a negative index is excluded by the "
                     "pre-condition (Python would wrap around)")
contract(PA + "EarleyParser.alternatives", props=["C10"], types={"sym": "Any"}, returns=f"List[{EXP}]",
         ensures="forall(k, 0, len(result), Rule(sym, result[k]))", assumed=True,
         why_assumed="ghost reading of `self.cgrammar[sym]`: its elements are exactly what Rule(sym, .) means")

# -- a state is justified; a column / the chart only holds justified states ----------------------------------------
spec("StateOK", "st, j",
     "0 <= st.dot and st.dot <= ELen(st.expr) and Rule(st.name, st.expr) and 0 <= st.s_col.index and "
     "st.s_col.index <= j and st.s_col == ChartCol(st.s_col.index) and DS(st.expr, st.dot, st.s_col.index, j)")
spec("ColOK", "c", "c.index >= 0 and c.letter == Letter(c.index) and "
                   "forall(k, 0, len(c.states), StateOK(c.states[k], c.index))")
spec("ChartOK", "", "N() >= 1 and forall(i, 0, N(), ChartCol(i).index == i and ColOK(ChartCol(i)))")
ISCOL = "col == ChartCol(col.index) and 0 <= col.index and col.index < N()"

contract(PA + "Item.finished", props=["C10"], types={"self": STA}, returns="Bool",
         result_is="self.dot >= ELen(self.expr)", crosscheck=False)
contract(PA + "Item.at_dot", props=["C10"], types={"self": STA}, returns="Opt[Any]",
         requires="self.dot >= 0",
         ensures="(result is None) == (self.dot >= ELen(self.expr)) and "
                 "implies(result is not None, result == EAt(self.expr, self.dot))", crosscheck=False)
contract(PA + "State.advance", props=["C10"], types={"self": STA}, returns=STA,
         ensures="result.name == self.name and result.expr == self.expr and result.dot == self.dot + 1 and "
                 "result.s_col == self.s_col", crosscheck=False)

contract(PA + "Column.add", props=["C10"], types={"self": COL, "state": STA}, returns="Any",
         requires="ColOK(self) and StateOK(state, self.index)",
         ensures={"column_stays_justified": "ColOK(self)"},
         path_hints={"modifies": {"self": ["states"], "state": ["e_col"]}, "untracked_fields": ["_unique"]},
         crosscheck=False,
         note="nothing but self.states and state.e_col is written (frame obligations): other columns are untouched")

MODS = {"modifies": {"col": ["states"]}}
CALLS = {"self.cgrammar[sym]": "call:EarleyParser.alternatives|sym", "tuple(alt)": "alt",
         "sym in self.epsilon": "uf_bool('nullable', sym)", "sym in self.cgrammar": "NT(sym)"}
ARB = dict(mode="growing", invariant="ChartOK()", havoc_fields=["Column.states", "State.e_col"])

contract(PA + "EarleyParser.scan", props=["C10"], types={"self": EP, "col": COL, "state": STA, "letter": "Any"},
         requires=f"ChartOK() and {ISCOL} and col.index >= 1 and StateOK(state, col.index - 1) and "
                  "state.dot < ELen(state.expr) and letter == EAt(state.expr, state.dot) and not NT(letter)",
         ensures={"chart_stays_justified": "ChartOK()"}, path_hints=dict(MODS), crosscheck=False)
contract(PA + "EarleyParser.predict", props=["C10"], types={"self": EP, "col": COL, "sym": "Any", "state": STA},
         requires=f"ChartOK() and {ISCOL} and StateOK(state, col.index) and state.dot < ELen(state.expr) and "
                  "sym == EAt(state.expr, state.dot) and NT(sym)",
         ensures={"chart_stays_justified": "ChartOK()"},
         loops={0: dict(ARB)}, path_hints=dict(MODS, calls=CALLS), crosscheck=False)
contract(PA + "EarleyParser.earley_complete", props=["C10"], types={"self": EP, "col": COL, "state": STA},
         requires=f"ChartOK() and {ISCOL} and StateOK(state, col.index) and state.dot >= ELen(state.expr)",
         ensures={"chart_stays_justified": "ChartOK()"},
         loops={0: dict(ARB)},
         path_hints=dict(MODS, hints_after=[
             dict(after="parent_states = ",
                  clause="D(state.name, state.s_col.index, col.index) and ColOK(state.s_col)"),
             dict(after="parent_states = ",
                  clause="forall(q, 0, len(parent_states), StateOK(parent_states[q], state.s_col.index) and "
                         "parent_states[q].dot < ELen(parent_states[q].expr) and "
                         "EAt(parent_states[q].expr, parent_states[q].dot) == state.name)")]),
         crosscheck=False)
contract(PA + "EarleyParser.complete", props=["C10"], types={"self": EP, "col": COL, "state": STA},
         requires=f"ChartOK() and {ISCOL} and StateOK(state, col.index) and state.dot >= ELen(state.expr)",
         ensures={"chart_stays_justified": "ChartOK()"}, path_hints=dict(MODS), crosscheck=False)
contract(PA + "EarleyParser.fill_chart", props=["C10"], types={"self": EP, "chart": f"List[{COL}]"},
         returns=f"List[{COL}]",
         requires="ChartOK() and len(chart) == N() and forall(i, 0, N(), chart[i] == ChartCol(i)) and not self.log",
         ensures={"chart_stays_justified": "ChartOK()", "same_chart": "result == chart"},
         loops={0: dict(ARB), 1: dict(ARB)}, path_hints={"calls": CALLS, "modifies": {}}, crosscheck=False)

# acceptance: a finished start-symbol state spanning the whole input in the last column means the start symbol
# derives the input -- what parse_prefix/parse test before yielding trees
lemma("earley_accepts_only_members", props=["C10"], types={"st": STA, "k": "Int", "start": "Any"},
      hyps="ChartOK() and 0 <= k and k < len(ChartCol(N() - 1).states) and st == ChartCol(N() - 1).states[k] and "
           "st.name == start and st.s_col.index == 0 and st.dot >= ELen(st.expr)",
      goal="D(start, 0, N() - 1)")
