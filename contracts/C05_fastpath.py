# Fast-path evaluators of ground SMT-LIB terms (C05).  Each `evaluate_z3_<op>`
# builds its Python result with a constructor `lambda args: ...`; the lambda is
# the real text that computes ISLa's answer.  Contract: it equals the *solver's
# own* operator (smt_* = the SMT-LIB function, evaluated by z3 on both sides:
# symbolically in the prover, concretely by the repo's z3 in the replay) and
# never raises.  Native z3 String/Int theories are used (DESIGN 2.3).

Z = "isla/z3_helpers.py::evaluate_z3_"
NS = dict(native_strings=True)


def op(name, types, ensures, returns, requires="True", tag="", k=0, enum=None, note=""):
    hints = dict(NS)
    if enum:
        hints["enum"] = {"args": enum}
    contract(f"{Z}{name}.<lambda#{k}>" + (f"@{tag}" if tag else ""), props=["C05"],
             types={"args": types}, returns=returns, requires=requires, ensures=ensures,
             native="lambda:isla.z3_helpers", path_hints=hints, note=note)


def tup(*rows):
    def j(x):
        if isinstance(x, str):
            return {"t": "nstr", "v": x}
        return x
    return [{"t": "tuple", "v": [j(x) for x in r]} for r in rows]


INTS2 = tup(*[(a, b) for a in (-7, -1, 0, 1, 5) for b in (-2, -1, 0, 1, 3)])
op("not", "Tuple[Bool]", "result == (not args[0])", "Bool")
op("and", "TupleOf[Bool]", "result == forall(i, 0, len(args), args[i])", "Bool", requires="len(args) >= 1",
   note="SMT-LIB `and` has >= 2 arguments in concrete syntax; isla.z3_helpers.z3_and never builds a 0-ary And")
op("or", "TupleOf[Bool]", "result == exists(i, 0, len(args), args[i])", "Bool", requires="len(args) >= 1")
op("eq", "Tuple[Int,Int]", "result == (args[0] == args[1])", "Bool", tag="int", enum=INTS2)
op("eq", "Tuple[NStr,NStr]", "result == (args[0] == args[1])", "Bool", tag="str")
op("eq", "Tuple[Bool,Bool]", "result == (args[0] == args[1])", "Bool", tag="bool")
op("lt", "Tuple[Int,Int]", "result == (args[0] < args[1])", "Bool", enum=INTS2)
op("le", "Tuple[Int,Int]", "result == (args[0] <= args[1])", "Bool", enum=INTS2)
op("gt", "Tuple[Int,Int]", "result == (args[0] > args[1])", "Bool", enum=INTS2)
op("ge", "Tuple[Int,Int]", "result == (args[0] >= args[1])", "Bool", enum=INTS2)
op("sub", "Tuple[Int,Int]", "result == args[0] - args[1]", "Int", enum=INTS2)
op("mod", "Tuple[Int,Int]", "result == smt_mod(args[0], args[1])", "Int", enum=INTS2)
op("seq_length", "Tuple[NStr]", "result == smt_len(args[0])", "Int")
op("seq_concat", "Tuple[NStr,NStr]", "result == smt_concat(args[0], args[1])", "NStr")
STR_IDX = tup(*[(s, i) for s in ("", "a", "abc") for i in (-4, -1, 0, 1, 2, 3, 5)])
op("seq_at", "Tuple[NStr,Int]", "result == smt_at(args[0], args[1])", "NStr", enum=STR_IDX)
STR_IDX2 = tup(*[(s, i, n) for s in ("", "a", "abcd") for i in (-3, -1, 0, 1, 4, 6) for n in (-1, 0, 1, 2, 9)])
op("seq_extract", "Tuple[NStr,Int,Int]", "result == smt_substr(args[0], args[1], args[2])", "NStr", enum=STR_IDX2)
op("str_to_code", "Tuple[NStr]", "result == smt_to_code(args[0])", "Int", enum=tup(("",), ("a",), ("ab",), ("\n",)))
