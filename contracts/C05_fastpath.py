# Fast-path evaluators of ground SMT-LIB terms (C05).  Each `evaluate_z3_<op>`
# builds its Python result with a constructor `lambda args: ...`; the lambda is
# the real text that computes ISLa's answer.  Contract: it equals the *solver's
# own* operator (smt_* = the SMT-LIB function, evaluated by z3 on both sides:
# symbolically in the prover, concretely by the repo's z3 in the replay) and
# never raises.  Native z3 String/Int theories are used (DESIGN 2.3).

Z = "isla/z3_helpers.py::evaluate_z3_"
NS = dict(native_strings=True)


def op(name, types, ensures, returns, requires="True", tag="", k=0, enum=None, note=""):
    hints = dict(NS)
    if enum:
        hints["enum"] = {"args": enum}
    contract(f"{Z}{name}.<lambda#{k}>" + (f"@{tag}" if tag else ""), props=["C05"],
             types={"args": types}, returns=returns, requires=requires, ensures=ensures,
             native="lambda:isla.z3_helpers", path_hints=hints, note=note)


def tup(*rows):
    def j(x):
        if isinstance(x, str):
            return {"t": "nstr", "v": x}
        return x
    return [{"t": "tuple", "v": [j(x) for x in r]} for r in rows]


INTS2 = tup(*[(a, b) for a in (-7, -1, 0, 1, 5) for b in (-2, -1, 0, 1, 3)])
op("not", "Tuple[Bool]", "result == (not args[0])", "Bool")
op("and", "TupleOf[Bool]", "result == forall(i, 0, len(args), args[i])", "Bool", requires="len(args) >= 1",
   note="SMT-LIB `and` has >= 2 arguments in concrete syntax; isla.z3_helpers.z3_and never builds a 0-ary And")
op("or", "TupleOf[Bool]", "result == exists(i, 0, len(args), args[i])", "Bool", requires="len(args) >= 1")
op("eq", "Tuple[Int,Int]", "result == (args[0] == args[1])", "Bool", tag="int", enum=INTS2)
op("eq", "Tuple[NStr,NStr]", "result == (args[0] == args[1])", "Bool", tag="str")
op("eq", "Tuple[Bool,Bool]", "result == (args[0] == args[1])", "Bool", tag="bool")
op("lt", "Tuple[Int,Int]", "result == (args[0] < args[1])", "Bool", enum=INTS2)
op("le", "Tuple[Int,Int]", "result == (args[0] <= args[1])", "Bool", enum=INTS2)
op("gt", "Tuple[Int,Int]", "result == (args[0] > args[1])", "Bool", enum=INTS2)
op("ge", "Tuple[Int,Int]", "result == (args[0] >= args[1])", "Bool", enum=INTS2)
op("sub", "Tuple[Int,Int]", "result == args[0] - args[1]", "Int", enum=INTS2)
op("mod", "Tuple[Int,Int]", "result == smt_mod(args[0], args[1])", "Int", enum=INTS2)
op("seq_length", "Tuple[NStr]", "result == smt_len(args[0])", "Int")
op("seq_concat", "Tuple[NStr,NStr]", "result == smt_concat(args[0], args[1])", "NStr")
STR_IDX = tup(*[(s, i) for s in ("", "a", "abc") for i in (-4, -1, 0, 1, 2, 3, 5)])
op("seq_at", "Tuple[NStr,Int]", "result == smt_at(args[0], args[1])", "NStr", enum=STR_IDX)
STR_IDX2 = tup(*[(s, i, n) for s in ("", "a", "abcd") for i in (-3, -1, 0, 1, 4, 6) for n in (-1, 0, 1, 2, 9)])
op("seq_extract", "Tuple[NStr,Int,Int]", "result == smt_substr(args[0], args[1], args[2])", "NStr", enum=STR_IDX2)
op("str_to_code", "Tuple[NStr]", "result == smt_to_code(args[0])", "Int", enum=tup(("",), ("a",), ("ab",), ("\n",)))


# ---- operator binding: every case function of the dispatch chain answers only for its own operator --------
# (C05, C02).  The constructors above are verified against ONE SMT-LIB operator each; which z3 head symbol a
# case function claims is decided by its applicability guard (`if not z3.is_mod(expr): return Nothing`,
# `expr.decl().kind() != z3.Z3_OP_...`, `expr.decl().name() != "re.range"`).  z3 terms are modelled by their
# head-symbol category `op` and declaration name (ASSUMED model of the z3 API; `z3.is_x` is read from the z3.py
# the repo runs with).  Proved from the real guard text: the function answers (result is not Nothing) exactly /
# only for the operator its constructor was verified against.  Hence no operator is routed to a constructor
# with another operator's semantics, whatever the order of the chain.
record("Z3Expr", module="z3", fields={"op": "Int", "declname": "Str"}, value_eq=False)
ZX = "Rec:Z3Expr"
GUARD_CALLS = {"expr.decl().kind()": "expr.op", "expr.decl().name()": "expr.declname"}


def binds(fn, kind=None, declname=None, exact=True, note=""):
    """exact: the guard is the only `return Nothing` of the function (answers exactly for the operator);
    otherwise further conditions may still decline, and only `answers => its operator` is claimed"""
    is_op = f"expr.op == z3op('{kind}')" if kind else f"expr.declname == '{declname}'"
    ens = {"answers_only_its_operator": f"implies(result is not None, {is_op})"}
    if exact:
        ens["answers_its_operator"] = f"implies({is_op}, result is not None)"
    contract(f"{Z}{fn}@guard", props=["C05", "C02"], types={"expr": ZX, "children_results": "Any"},
             arg_order=["expr", "children_results"], returns="Opt[Any]",
             fragment=dict(rule="guard_prefix"), ensures=ens,
             path_hints={"calls": GUARD_CALLS, "abstract_answers": True}, crosscheck=False,
             native=f"guard:isla.z3_helpers:evaluate_z3_{fn}",
             note=note)


for fn, kind in (("not", "Z3_OP_NOT"), ("and", "Z3_OP_AND"), ("or", "Z3_OP_OR"), ("eq", "Z3_OP_EQ"),
                 ("lt", "Z3_OP_LT"), ("le", "Z3_OP_LE"), ("gt", "Z3_OP_GT"), ("ge", "Z3_OP_GE"),
                 ("add", "Z3_OP_ADD"), ("sub", "Z3_OP_SUB"), ("mul", "Z3_OP_MUL"), ("mod", "Z3_OP_MOD"),
                 ("pow", "Z3_OP_POWER"), ("seq_length", "Z3_OP_SEQ_LENGTH"), ("seq_concat", "Z3_OP_SEQ_CONCAT"),
                 ("seq_at", "Z3_OP_SEQ_AT"), ("seq_extract", "Z3_OP_SEQ_EXTRACT"),
                 ("str_to_code", "Z3_OP_STR_TO_CODE"), ("seq_to_re", "Z3_OP_SEQ_TO_RE"),
                 ("re_concat", "Z3_OP_RE_CONCAT"), ("seq_in_re", "Z3_OP_SEQ_IN_RE"), ("re_star", "Z3_OP_RE_STAR"),
                 ("re_plus", "Z3_OP_RE_PLUS"), ("re_option", "Z3_OP_RE_OPTION"), ("re_union", "Z3_OP_RE_UNION"),
                 ("re_full_set", "Z3_OP_RE_FULL_SET"), ("false_value", "Z3_OP_FALSE"), ("true_value", "Z3_OP_TRUE"),
                 ("string_value", "VALUE:is_string_value"), ("int_value", "VALUE:is_int_value"),
                 ("rat_value", "VALUE:is_rational_value")):
    binds(fn, kind=kind)
binds("div", kind="Z3_OP_DIV",
      note="`/` on reals (Z3_OP_DIV) only: integer division `div` (Z3_OP_IDIV) rounds differently and has no fast path")
binds("str_to_int", kind="Z3_OP_STR_TO_INT", exact=False, note="may still raise DomainError for the empty string")
binds("re_loop", kind="Z3_OP_RE_LOOP", exact=False, note="declines the application form (bounds as arguments)")
binds("re_range", declname="re.range")
binds("re_comp", declname="re.comp", exact=False, note="declines complements of anything but a union of strings or a range")
