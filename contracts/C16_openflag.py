# Cached open-flag of DerivationTree (C16, also carries C01: closedness of
# solver results rests on it).  Representation invariant:
#     TreeInv(t):  t.__is_open is None  or  t.__is_open == Open(t)
# with Open(t) := t has no children list (unexpanded leaf) or some child is Open.

DT = "isla/derivation_tree.py::DerivationTree."
RT = "Rec:DerivationTree"
CH = f"Opt[TupleOf[{RT}]]"

record("DerivationTree", module="isla.derivation_tree", file="isla/derivation_tree.py",
       fields={"_DerivationTree__value": "Any", "_DerivationTree__children": CH, "_id": "Int",
               "_DerivationTree__is_open": "Opt[Bool]"},
       value_eq=False, mutable=["_DerivationTree__is_open"])

spec("Open", "t",
     "t._DerivationTree__children is None or "
     "exists(i, 0, len(t._DerivationTree__children), Open(t._DerivationTree__children[i]))",
     recursive=True)
spec("TreeInv", "t", "t._DerivationTree__is_open is None or t._DerivationTree__is_open == Open(t)")
# invariant of a node and of all nodes below it
spec("AllInv", "t",
     "TreeInv(t) and (t._DerivationTree__children is None or "
     "forall(i, 0, len(t._DerivationTree__children), AllInv(t._DerivationTree__children[i])))",
     recursive=True)
# path[k:] is a valid path below t
spec("ValidFrom", "t, path, k",
     "k >= len(path) or (t._DerivationTree__children is not None and 0 <= path[k] and "
     "path[k] < len(t._DerivationTree__children) and ValidFrom(t._DerivationTree__children[path[k]], path, k + 1))",
     types={"path": "Path"}, recursive=True)

contract(DT + "children", props=["C16"], types={"self": RT}, returns=CH, is_property=True,
         result_is="self._DerivationTree__children")
contract(DT + "value", props=["C16"], types={"self": RT}, returns="Any", is_property=True,
         result_is="self._DerivationTree__value")
contract(DT + "id", props=["C16"], types={"self": RT}, returns="Int", is_property=True,
         result_is="self._id")

contract(DT + "__init__", props=["C16", "C01"],
         types={"self": RT, "value": "Any", "children": CH, "id": "Opt[Int]", "k_paths": "Any", "hash": "Any",
                "structural_hash": "Any", "is_open": "Opt[Bool]"},
         arg_order=["self", "value", "children", "id", "k_paths", "hash", "structural_hash", "is_open"],
         fragment=dict(rule="attr_slice", attrs=["__children", "__is_open", "__value"]),
         requires="(children is None or forall(i, 0, len(children), TreeInv(children[i]))) and "
                  "(is_open is None or children is None or is_open == exists(i, 0, len(children), Open(children[i])))",
         ensures={"children_kept": "(self._DerivationTree__children is None) == (children is None) and "
                                   "(children is None or (len(self._DerivationTree__children) == len(children) and "
                                   "forall(i, 0, len(children), self._DerivationTree__children[i] == children[i])))",
                  "value_kept": "self._DerivationTree__value == value",
                  "invariant": "TreeInv(self)"},
         path_hints={"defaults": {"children": "None", "id": "None", "k_paths": "None", "hash": "None",
                                  "structural_hash": "None", "is_open": "None"}},
         crosscheck=False,
         note="constructor establishes the invariant if a supplied flag is right and the children satisfy it")

contract(DT + "__compute_is_open", props=["C16"], types={"self": RT}, returns="Bool",
         ensures="result == Open(self)", assumed=True,
         why_assumed="uses helpers.traverse with a nonlocal flag (outside the subset); checked by the bounded "
                     "battery is_open() == ref_open() in bounded_C16")

contract(DT + "is_open", props=["C16", "C01"], types={"self": RT}, returns="Bool",
         requires="TreeInv(self)",
         ensures={"value": "result == Open(self)", "invariant": "TreeInv(self)",
                  "flag_set": "self._DerivationTree__is_open is not None"},
         path_hints={"modifies": ["_DerivationTree__is_open"]}, crosscheck=False)

# what loop 2 of replace_path needs to know about a node on the path (opaque: the loop only moves it around)
spec("OnPath", "t, i",
     "t._DerivationTree__children is not None and 0 <= i and i < len(t._DerivationTree__children) and "
     "TreeInv(t) and forall(c, 0, len(t._DerivationTree__children), TreeInv(t._DerivationTree__children[c]))",
     opaque=True)

contract(DT + "replace_path", props=["C16", "C01"],
         types={"self": RT, "path": "Path", "replacement_tree": RT, "retain_id": "Bool"}, returns=RT,
         requires="AllInv(self) and TreeInv(replacement_tree) and ValidFrom(self, path, 0) and "
                  "(replacement_tree._DerivationTree__children is None or "
                  "forall(i, 0, len(replacement_tree._DerivationTree__children), "
                  "TreeInv(replacement_tree._DerivationTree__children[i])))",
         ensures={"invariant": "TreeInv(result)"},
         locals_types={"stack": f"List[{RT}]"},
         path_hints={"local_lists": ["stack"],
                     "hints_after": [
                         dict(after="parent = stack.pop()", clause="OnPath(parent, idx) and TreeInv(replacement)"),
                         dict(after="children = parent.children",
                              clause="children is not None and 0 <= idx and idx < len(children) and TreeInv(parent) and "
                                     "forall(c, 0, len(children), TreeInv(children[c]))"),
                         dict(after="new_children = ",
                              clause="len(new_children) == len(children) and new_children[idx] == replacement and "
                                     "forall(c, 0, len(children), implies(c != idx, new_children[c] == children[c]))")]},
         loops={
             0: dict(invariant="len(stack) == _k + 1 and forall(j, 0, len(stack), AllInv(stack[j])) and "
                               "ValidFrom(stack[len(stack) - 1], path, _k) and "
                               "forall(j, 0, _k, stack[j]._DerivationTree__children is not None and 0 <= path[j] and "
                               "path[j] < len(stack[j]._DerivationTree__children))"),
             1: dict(invariant="len(stack) == len(path) - _k + 1 and TreeInv(stack[len(stack) - 1]) and "
                               "forall(j, 0, len(stack) - 1, OnPath(stack[j], path[j]))"),
         },
         crosscheck=False,
         note="the result of replace_path satisfies the cached-flag invariant whenever the inputs do")


# ---- path lookup (C16): is_valid_path and get_subtree walk the same path relation ----------------------------------
# IsSub(t, path, k, r): following path[k:] from t ends in r (every index in range on the way)
spec("IsSub", "t, path, k, r",
     "(k >= len(path) and r == t) or (k < len(path) and t._DerivationTree__children is not None and 0 <= path[k] and "
     "path[k] < len(t._DerivationTree__children) and IsSub(t._DerivationTree__children[path[k]], path, k + 1, r))",
     types={"path": "Path"}, recursive=True)
NONNEG = "forall(i, 0, len(path), path[i] >= 0)"
contract(DT + "is_valid_path", props=["C16"], types={"self": RT, "path": "Path"}, closure={"p0": "Path"}, returns="Bool",
         requires=f"p0 == path and {NONNEG}",
         ensures={"valid_iff_every_index_in_range": "result == ValidFrom(self, p0, 0)"},
         loops={0: dict(invariant="len(path) <= len(p0) and path == p0[len(p0) - len(path):] and "
                                  "ValidFrom(self, p0, 0) == ValidFrom(curr_node, p0, len(p0) - len(path))",
                        variant="len(path)")},
         crosscheck=False,
         note="child indices are natural numbers (Path); a negative index would be wrapped around by Python's indexing")
contract(DT + "get_subtree", props=["C16"], types={"self": RT, "path": "Path"}, closure={"p0": "Path"},
         returns=f"Opt[{RT}]",
         requires=f"p0 == path and {NONNEG} and ValidFrom(self, p0, 0)",
         ensures={"found": "result is not None", "is_the_node_at_the_path": "IsSub(self, p0, 0, result)"},
         loops={0: dict(invariant="len(path) <= len(p0) and path == p0[len(p0) - len(path):] and "
                                  "ValidFrom(curr_node, p0, len(p0) - len(path)) and "
                                  "forall_sort(r, 'DerivationTree', IsSub(self, p0, 0, r) == "
                                  "IsSub(curr_node, p0, len(p0) - len(path), r))",
                        variant="len(path)")},
         crosscheck=False,
         note="on a valid path get_subtree returns the node that is_valid_path's walk ends in; @lru_cache dropped (pure)")
