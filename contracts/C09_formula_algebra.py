# Formula combinators (C09, proved part).  The class hierarchy of
# isla.language.Formula is folded into one record sort with a `kind` tag.
# `sem(f, s)` is the truth value of f on a fixed (arbitrary) closed tree under
# the assignment s; quantifier nodes range over an uninterpreted match domain
# that depends only on (bound variable, in-variable, match expression, s) --
# so Forall/Exists over the same binder are dual by definition of the
# *specification*, and the obligations check that the *code* builds exactly
# those nodes.  Atoms (SMT formulas other than true/false, predicates) are
# uninterpreted.

L = "isla/language.py::"
F = "Rec:Formula"
K = dict(SMT=0, NEG=1, CONJ=2, DISJ=3, FORALL=4, EXISTS=5, FORALLINT=6, EXISTSINT=7)

record("Formula", module="isla.language", file="isla/language.py",
       fields={"kind": "Int", "args": f"TupleOf[{F}]", "is_true": "Bool", "is_false": "Bool",
               "inner_formula": F, "bound_variable": "Any", "in_variable": "Any", "bind_expression": "Any",
               "already_matched": "Any"},
       value_eq=False,
       subclasses={
           "SMTFormula": dict(tags=[0]),
           "NegatedFormula": dict(tags=[1], ctor=["args*"], min_args=1),
           "ConjunctiveFormula": dict(tags=[2], ctor=["args*"], min_args=2),
           "DisjunctiveFormula": dict(tags=[3], ctor=["args*"], min_args=2),
           "ForallFormula": dict(tags=[4], ctor=["bound_variable", "in_variable", "inner_formula", "bind_expression",
                                                 "already_matched"]),
           "ExistsFormula": dict(tags=[5], ctor=["bound_variable", "in_variable", "inner_formula", "bind_expression"]),
           "ForallIntFormula": dict(tags=[6], ctor=["bound_variable", "inner_formula"]),
           "ExistsIntFormula": dict(tags=[7], ctor=["bound_variable", "inner_formula"]),
           "PropositionalCombinator": dict(tags=[1, 2, 3]),
           "StructuralPredicateFormula": dict(tags=[8]),
           "SemanticPredicateFormula": dict(tags=[9]),
           "QuantifiedFormula": dict(tags=[4, 5]),
           "NumericQuantifiedFormula": dict(tags=[6, 7]),
       })

spec("sem", "f, s",
     "ite(f.kind == 2, forall(i, 0, len(f.args), sem(f.args[i], s)), "
     "ite(f.kind == 3, exists(i, 0, len(f.args), sem(f.args[i], s)), "
     "ite(f.kind == 1, not sem(f.args[0], s), "
     "ite(f.kind == 0 and f.is_true, True, "
     "ite(f.kind == 0 and f.is_false, False, "
     "ite(f.kind == 4, forall_sort(d, 'Dom', implies(uf_bool('indom', f.bound_variable, f.in_variable, f.bind_expression, s, d), "
     "                     sem(f.inner_formula, uf_sort('ext', 'Asg', s, f.bound_variable, d)))), "
     "ite(f.kind == 5, exists_sort(d, 'Dom', uf_bool('indom', f.bound_variable, f.in_variable, f.bind_expression, s, d) and "
     "                     sem(f.inner_formula, uf_sort('ext', 'Asg', s, f.bound_variable, d))), "
     "ite(f.kind == 6, forall_sort(d, 'Dom', implies(uf_bool('indomint', f.bound_variable, s, d), "
     "                     sem(f.inner_formula, uf_sort('ext', 'Asg', s, f.bound_variable, d)))), "
     "ite(f.kind == 7, exists_sort(d, 'Dom', uf_bool('indomint', f.bound_variable, s, d) and "
     "                     sem(f.inner_formula, uf_sort('ext', 'Asg', s, f.bound_variable, d))), "
     "uf_bool('atom', f, s))))))))))",
     types={"s": "Sort:Asg"}, recursive=True)

axiom("formula_ast_is_finite", types={"f": F},
      body="uf_int('fsize', f) >= 0 and forall(i, 0, len(f.args), uf_int('fsize', f.args[i]) < uf_int('fsize', f)) and "
           "uf_int('fsize', f.inner_formula) < uf_int('fsize', f)",
      why="formula ASTs are finite trees: a size measure exists (used only for termination of __neg__)")
axiom("formula_arity", types={"f": F},
      body="len(f.args) >= 0 and implies(f.kind == 1, len(f.args) == 1) and "
           "implies(f.kind == 2 or f.kind == 3, len(f.args) >= 2)",
      why="NegatedFormula has one argument; the constructors of Conjunctive/DisjunctiveFormula reject fewer than two")
axiom("smt_true_false_exclusive", types={"f": F}, body="not (f.is_true and f.is_false)",
      why="z3.is_true and z3.is_false of one expression exclude each other")

contract(L + "Formula.__eq__", props=["C09"], types={"self": F, "other": F}, returns="Bool",
         ensures="implies(result, forall_sort(s, 'Asg', sem(self, s) == sem(other, s)))",
         assumed=True,
         why_assumed="structural equality of formulas implies equal meaning (the subclasses' __eq__ compare type and "
                     "components); exercised by bounded_C07/C09")
for nm, val in (("true", "is_true"), ("false", "is_false")):
    contract(L + nm, props=["C09"], types={}, returns=F,
             ensures=f"result.kind == 0 and result.{val} and not result.{'is_false' if nm == 'true' else 'is_true'}",
             assumed=True, why_assumed="one-line constructor SMTFormula(z3.BoolVal(..)) behind @cache; SMTFormula.__init__ "
                                       "sets is_true/is_false from z3.is_true/is_false")

GHOST = {"z3.is_true(self.formula)": "self.is_true", "z3.is_false(self.formula)": "self.is_false",
         "z3.is_true(other.formula)": "other.is_true", "z3.is_false(other.formula)": "other.is_false"}
S1 = {"s": "Sort:Asg"}

contract(L + "Formula.__and__", props=["C09"], types={"self": F, "other": F}, returns=F, closure=S1,
         ensures="sem(result, s) == (sem(self, s) and sem(other, s))",
         path_hints={"calls": GHOST}, crosscheck=False)
contract(L + "Formula.__or__", props=["C09"], types={"self": F, "other": F}, returns=F, closure=S1,
         ensures="sem(result, s) == (sem(self, s) or sem(other, s))",
         path_hints={"calls": GHOST}, crosscheck=False)
# `-f` dispatches dynamically: SMTFormula overrides __neg__ (it negates the z3 expression with
# z3_push_in_negations); every other class inherits Formula.__neg__.  Call sites see this contract.
contract(L + "Formula.__neg__", props=["C09"], types={"self": F}, returns=F,
         ensures="forall_sort(s, 'Asg', sem(result, s) == (not sem(self, s)))",
         assumed=True,
         why_assumed="dispatch view of unary minus: for kind != SMT it is Formula.__neg__@body (verified below, with "
                     "this contract as induction hypothesis and a decreasing size measure); for SMTFormula it is "
                     "the override built on z3_push_in_negations (z3-level, checked by bounded_C09)")
contract(L + "Formula.__neg__@body", props=["C09"], types={"self": F}, returns=F,
         requires="self.kind != 0",
         raises={"AssertionError": "self.kind == 0"},
         ensures="forall_sort(s, 'Asg', sem(result, s) == (not sem(self, s)))",
         decreases="uf_int('fsize', self)",
         path_hints={"recursion_via": L + "Formula.__neg__",
                     "folds": {
             "lambda a, b: a | b": dict(invariant="forall_sort(s1, 'Asg', sem(a, s1) == exists(i, 0, _k, sem(_xs[i], s1)))"),
             "lambda a, b: a & b": dict(invariant="forall_sort(s1, 'Asg', sem(a, s1) == forall(i, 0, _k, sem(_xs[i], s1)))")}},
         crosscheck=False,
         note="SMTFormula overrides __neg__ (z3.Not), hence kind != SMT here")


# ---- negation normal form (C09) -----------------------------------------------------------------------
# convert_to_nnf dispatches through a flow/lash chain over seven case functions (library combinators:
# the call shape of the chain is a separate syntactic obligation).  Dispatch view (ASSUMED, the induction
# hypothesis of the recursion): the result of the first case function that does not answer Nothing.  Each
# case function is VERIFIED: it answers exactly for its formula classes, and its answer means
# `formula` if not negate else `not formula` -- under every assignment.
NNF_MEANS = "forall_sort(s, 'Asg', sem(result, s) == (sem(formula, s) != negate))"
contract(L + "convert_to_nnf", props=["C09"], types={"formula": F, "negate": "Bool"}, returns=F,
         ensures=NNF_MEANS, assumed=True,
         path_hints={"defaults": {"negate": "False"}},
         why_assumed="dispatch view of the flow/lash chain: the answer of the first case function that does not "
                     "return Nothing; the seven case functions are verified below with this contract as induction "
                     "hypothesis (decreasing formula size), lemma nnf_cases_cover shows that some case always answers; "
                     "the SMT case (z3_push_in_negations) is checked by bounded_C09")
FOLDS = {"lambda a, b: a | b": dict(invariant="forall_sort(s1, 'Asg', sem(a, s1) == exists(i, 0, _k, sem(_xs[i], s1)))"),
         "lambda a, b: a & b": dict(invariant="forall_sort(s1, 'Asg', sem(a, s1) == forall(i, 0, _k, sem(_xs[i], s1)))")}


def nnf_case(name, kinds, extra_hints=None):
    applies = " or ".join(f"formula.kind == {k}" for k in kinds)
    hints = {"recursion_via": L + "convert_to_nnf", "folds": FOLDS}
    hints.update(extra_hints or {})
    contract(L + name, props=["C09"], types={"formula": F, "negate": "Bool"}, returns=f"Opt[{F}]",
             ensures={"answers_exactly_its_classes": f"(result is not None) == ({applies})",
                      "meaning": f"implies(result is not None, {NNF_MEANS})"},
             decreases="uf_int('fsize', formula)", path_hints=hints, crosscheck=False)


nnf_case("convert_negated_formula_to_nnf", [K["NEG"]])
nnf_case("convert_conjunctive_formula_to_nnf", [K["CONJ"]])
nnf_case("convert_disjunctive_formula_to_nnf", [K["DISJ"]])
nnf_case("convert_structural_predicate_formula_to_nnf", [8, 9])
nnf_case("convert_exists_int_formula_to_nnf", [K["FORALLINT"], K["EXISTSINT"]])
nnf_case("convert_quantified_formula_to_nnf", [K["FORALL"], K["EXISTS"]],
         {"calls": {"set()": "uf_sort('empty_set', 'Any')"}})

NONE7 = {f"r{i}": f"Opt[{F}]" for i in range(1, 7)}
lemma("nnf_cases_cover", props=["C09"], types=dict(NONE7, formula=F, negate="Bool"),
      hyps="formula.kind >= 1 and formula.kind <= 9 and " + " and ".join(
          f"post('{n}', formula=formula, negate=negate, result=r{i})" for i, n in enumerate(
              ["convert_negated_formula_to_nnf", "convert_conjunctive_formula_to_nnf",
               "convert_disjunctive_formula_to_nnf", "convert_structural_predicate_formula_to_nnf",
               "convert_exists_int_formula_to_nnf", "convert_quantified_formula_to_nnf"], 1)),
      goal=" or ".join(f"r{i} is not None" for i in range(1, 7)),
      note="every formula class other than SMTFormula (kind 0, whose case is z3-level) is answered by a verified case")
