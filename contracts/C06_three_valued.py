# ThreeValuedTruth (C06, proved half): every operation equals its Kleene table
# and is monotone w.r.t. the information order UNKNOWN <= TRUE, UNKNOWN <= FALSE
# -- refining UNKNOWN inputs can only refine, never flip, a definite output.

F3 = "isla/three_valued_truth.py::ThreeValuedTruth."
R = "Rec:ThreeValuedTruth"

record("ThreeValuedTruth", module="isla.three_valued_truth", file="isla/three_valued_truth.py",
       fields={"val": "Int"}, construct="ThreeValuedTruth(val)",
       enum=[{"val": 0}, {"val": 1}, {"val": 2}])

spec("tv_not", "a", "ite(a == 1, 0, ite(a == 0, 1, 2))", returns="Int")
# weak (Bochvar) connectives of `&` and `|`: UNKNOWN if any argument is UNKNOWN
spec("tv_wand", "a, b", "ite(a == 2 or b == 2, 2, ite(a == 1 and b == 1, 1, 0))", returns="Int")
spec("tv_wor", "a, b", "ite(a == 2 or b == 2, 2, ite(a == 1 or b == 1, 1, 0))", returns="Int")
spec("tv_ok", "a", "0 <= a and a <= 2")
spec("tv_leq", "a, b", "a == 2 or a == b")     # information order

for name, k in (("is_false", 0), ("is_true", 1), ("is_unknown", 2)):
    contract(F3 + name, props=["C06"], types={"self": R}, returns="Bool",
             result_is=f"self.val == {k}", native=f"isla.three_valued_truth:ThreeValuedTruth.{name}")
for name, k in (("false", 0), ("true", 1), ("unknown", 2)):
    contract(F3 + name, props=["C06"], types={}, returns=R, ensures=f"result.val == {k}",
             native=f"isla.three_valued_truth:ThreeValuedTruth.{name}")

contract(F3 + "to_bool", props=["C06"], types={"self": R}, returns="Bool",
         raises={"AssertionError": "self.val == 2"},
         ensures="result == (self.val != 0)", native="isla.three_valued_truth:ThreeValuedTruth.to_bool")
contract(F3 + "__bool__", props=["C06"], types={"self": R}, returns="Bool",
         raises={"AssertionError": "self.val == 2"},
         requires="True", ensures="result == (self.val != 0)",
         native="isla.three_valued_truth:ThreeValuedTruth.__bool__")
contract(F3 + "from_bool", props=["C06"], types={"b": "Bool"}, returns=R,
         ensures="result.val == ite(b, 1, 0)", native="isla.three_valued_truth:ThreeValuedTruth.from_bool")
contract(F3 + "not_", props=["C06"], types={"arg": R}, returns=R, requires="tv_ok(arg.val)",
         ensures="result.val == tv_not(arg.val)", native="isla.three_valued_truth:ThreeValuedTruth.not_")
contract(F3 + "__neg__", props=["C06"], types={"self": R}, returns=R, requires="tv_ok(self.val)",
         ensures="result.val == tv_not(self.val)", native="isla.three_valued_truth:ThreeValuedTruth.__neg__")
contract(F3 + "__and__", props=["C06"], types={"self": R, "other": R}, returns=R,
         requires="tv_ok(self.val) and tv_ok(other.val)",
         ensures="result.val == tv_wand(self.val, other.val)",
         native="isla.three_valued_truth:ThreeValuedTruth.__and__")
contract(F3 + "__or__", props=["C06"], types={"self": R, "other": R}, returns=R,
         requires="tv_ok(self.val) and tv_ok(other.val)",
         ensures="result.val == tv_wor(self.val, other.val)",
         native="isla.three_valued_truth:ThreeValuedTruth.__or__")

# strong Kleene conjunction / disjunction over sequences of any length
contract(F3 + "all", props=["C06", "C03"], types={"args": f"List[{R}]"}, returns=R,
         ensures="result.val == ite(exists(i, 0, len(args), args[i].val == 0), 0, "
                 "ite(exists(i, 0, len(args), args[i].val == 2), 2, 1))",
         native="isla.three_valued_truth:ThreeValuedTruth.all")
contract(F3 + "any", props=["C06", "C03"], types={"args": f"List[{R}]"}, returns=R,
         ensures="result.val == ite(exists(i, 0, len(args), args[i].val == 1), 1, "
                 "ite(exists(i, 0, len(args), args[i].val == 2), 2, 0))",
         native="isla.three_valued_truth:ThreeValuedTruth.any")

# ---- monotonicity (the algebraic half of C06) -------------------------------
XS = {"xs": f"List[{R}]", "ys": f"List[{R}]", "r1": R, "r2": R}
REFINES = ("len(xs) == len(ys) and forall(i, 0, len(xs), tv_ok(xs[i].val) and tv_ok(ys[i].val) and "
           "tv_leq(xs[i].val, ys[i].val))")
lemma("tv_all_monotone", props=["C06"], types=XS,
      hyps=REFINES + " and post('ThreeValuedTruth.all', args=xs, result=r1) and post('ThreeValuedTruth.all', args=ys, result=r2)",
      goal="tv_leq(r1.val, r2.val)")
lemma("tv_any_monotone", props=["C06"], types=XS,
      hyps=REFINES + " and post('ThreeValuedTruth.any', args=xs, result=r1) and post('ThreeValuedTruth.any', args=ys, result=r2)",
      goal="tv_leq(r1.val, r2.val)")
AB = {"a": "Int", "b": "Int", "c": "Int", "d": "Int"}
lemma("tv_not_monotone", props=["C06"], types=AB, hyps="tv_ok(a) and tv_ok(b) and tv_leq(a, b)",
      goal="tv_leq(tv_not(a), tv_not(b))")
lemma("tv_and_or_monotone", props=["C06"], types=AB,
      hyps="tv_ok(a) and tv_ok(b) and tv_ok(c) and tv_ok(d) and tv_leq(a, b) and tv_leq(c, d)",
      goal="tv_leq(tv_wand(a, c), tv_wand(b, d)) and tv_leq(tv_wor(a, c), tv_wor(b, d))")
lemma("tv_de_morgan", props=["C06", "C09"], types=AB, hyps="tv_ok(a) and tv_ok(b)",
      goal="tv_not(tv_wand(a, b)) == tv_wor(tv_not(a), tv_not(b)) and tv_not(tv_not(a)) == a")
lemma("tv_all_closed_is_boolean", props=["C06", "C03"], types={"xs": f"List[{R}]", "r1": R},
      hyps="forall(i, 0, len(xs), xs[i].val == 0 or xs[i].val == 1) and post('ThreeValuedTruth.all', args=xs, result=r1)",
      goal="r1.val == ite(forall(i, 0, len(xs), xs[i].val == 1), 1, 0)",
      note="on definite verdicts `all` is Boolean conjunction (used for closed trees, C03)")


# ---- SMT atoms on open trees are UNKNOWN (C06) -----------------------------------------------------------------------
# evaluate_smt_formula, up to the point where the atom is instantiated: if a free variable is unassigned or a
# substituted tree is open (both computed by set / dict operations outside the subset: ghost Booleans bound to the
# exact expression texts), the verdict is UNKNOWN -- never a definite value.  Not SMT formulas: Nothing.
EV = "isla/evaluator.py::evaluate_smt_formula"
UNASSIGNED = "formula.free_variables().difference(assignments)"
OPEN_SUBST = "any((tree.is_open() for tree in formula.substitutions.values()))"
contract(EV + "@open", props=["C06", "C03"],
         types={"formula": "Rec:Formula", "assignments": "Any", "_1": "Any", "_2": "Any", "_3": "Any", "_4": "Any"},
         closure={"unassigned": "Bool", "open_subst": "Bool"}, returns=f"Opt[{R}]",
         requires="unassigned or open_subst or formula.kind != 0",
         fragment=dict(rule="until_stmt", starts_with="z3_formula = "),
         ensures={"not_an_smt_formula_is_declined": "(result is None) == (formula.kind != 0)",
                  "open_or_unassigned_is_unknown": "implies(formula.kind == 0, result.val == 2)"},
         path_hints={"ghost_exprs": {UNASSIGNED: "unassigned", OPEN_SUBST: "open_subst"}},
         crosscheck=False)
