# Path helpers, list helpers and trie key encoding (C16; the path helpers also
# carry C06/C08/C12/C13/C14 because evaluator, XPath elimination, mutator,
# tree insertion and count() call them).

H = "isla/helpers.py::"
P2 = {"path_1": "Path", "path_2": "Path"}

contract(H + "is_prefix", props=["C16", "C06", "C08", "C13"], types=P2, returns="Bool",
         ensures="result == Prefix(path_1, path_2)", decreases="len(path_1)",
         native="isla.helpers:is_prefix")
contract(H + "parent_reflexive", props=["C16", "C20"], types=P2, returns="Bool",
         ensures="result == Prefix(path_1, path_2)", native="isla.helpers:parent_reflexive")
contract(H + "parent_or_child", props=["C16", "C12", "C20"], types=P2, returns="Bool",
         ensures="result == (Prefix(path_1, path_2) or Prefix(path_2, path_1))",
         native="isla.helpers:parent_or_child")

# whole-view post-conditions: every other element is unchanged
contract(H + "list_set", props=["C16", "C08"],
         types={"ilist": "TupleOf[Int]", "repl_idx": "Int", "new_elem": "Int"}, returns="TupleOf[Int]",
         requires="0 <= repl_idx and repl_idx < len(ilist)",
         ensures={"length": "len(result) == len(ilist)",
                  "touched": "result[repl_idx] == new_elem",
                  "frame": "forall(j, 0, len(ilist), implies(j != repl_idx, result[j] == ilist[j]))"},
         native="isla.helpers:list_set",
         note="elements are opaque to the function; Int stands for any element type (parametricity)")
contract(H + "list_del", props=["C16", "C01"],
         types={"ilist": "TupleOf[Int]", "del_idx": "Int"}, returns="TupleOf[Int]",
         requires="0 <= del_idx and del_idx < len(ilist)",
         ensures={"length": "len(result) == len(ilist) - 1",
                  "before": "forall(j, 0, del_idx, result[j] == ilist[j])",
                  "after": "forall(j, del_idx, len(ilist) - 1, result[j] == ilist[j + 1])"},
         native="isla.helpers:list_del")

contract(H + "nth_occ", props=["C08", "C16"],
         types={"haystack": "TupleOf[Int]", "needle": "Int", "n": "Int"}, returns="Opt[Int]",
         requires="n >= 0",
         ensures={"none": "implies(result is None, count_eq(haystack, needle, len(haystack)) <= n)",
                  "some": "implies(result is not None, 0 <= result and result < len(haystack) and "
                          "haystack[result] == needle and count_eq(haystack, needle, result) == n)"},
         loops={0: dict(invariant="num_occs == count_eq(haystack, needle, _k) and num_occs <= n")},
         native="isla.helpers:nth_occ",
         note="result is the index of the (n+1)-th occurrence of needle (0-based n), None if there are at most n")

# ---- trie keys ------------------------------------------------------------
T = "isla/trie.py::"
# The trie is created with the alphabet chr(0)..chr(29) (SubtreesTrie.__init__);
# chr(0) is ignored by datrie and chr(1) is reserved for the root marker, so a
# child index i is representable iff i + 2 <= 29.  Child indices of derivation
# trees are arbitrary naturals, hence the `in_alphabet` clause is stated for all
# naturals: it is what DerivationTree.trie() needs "for any number of children".
contract(T + "path_to_trie_key", props=["C16", "C03"], types={"path": "Path"}, returns="Str",
         requires="forall(i, 0, len(path), 0 <= path[i] and path[i] <= 1114109)",
         ensures={"length": "len(result) == len(path) + 1",
                  "root_marker": "ord(result[0]) == 1",
                  "elementwise": "forall(i, 0, len(path), ord(result[i + 1]) == path[i] + 2)",
                  "in_alphabet": "forall(i, 0, len(result), 1 <= ord(result[i]) and ord(result[i]) <= 29)"},
         native="isla.trie:path_to_trie_key",
         path_hints={"enum": {"path": [{"t": "tuple", "v": v} for v in
                                       ([], [0], [1], [27], [0, 1], [2, 0, 27], [28], [3, 40], [0, 0, 0, 29])]}})

contract(T + "trie_key_to_path", props=["C16", "C03"], types={"key": "Str"}, returns="Path",
         requires="len(key) == 0 or ord(key[0]) != 1 or forall(i, 1, len(key), ord(key[i]) >= 2)",
         raises={"RuntimeError": "len(key) == 0 or ord(key[0]) != 1"},
         ensures={"length": "len(result) == len(key) - 1",
                  "elementwise": "forall(i, 0, len(result), result[i] == ord(key[i + 1]) - 2)"},
         native="isla.trie:trie_key_to_path",
         path_hints={"filter_lemmas": [dict(var="i", lo="1", hi="len(key) + 1", body="_cnt(i) == i - 1")]})

lemma("trie_key_roundtrip", props=["C16", "C03"], types={"p": "Path", "k": "Str", "r": "Path"},
      hyps="forall(i, 0, len(p), 0 <= p[i] and p[i] <= 1114109) and post('path_to_trie_key', path=p, result=k) "
           "and post('trie_key_to_path', key=k, result=r)",
      goal="pre('trie_key_to_path', key=k) and len(k) > 0 and ord(k[0]) == 1 and r == p",
      note="decode(encode(p)) == p, over the two contracts only")
lemma("trie_key_prefix_homomorphism", props=["C16", "C03"],
      types={"p": "Path", "q": "Path", "kp": "Str", "kq": "Str"},
      hyps="post('path_to_trie_key', path=p, result=kp) and post('path_to_trie_key', path=q, result=kq)",
      goal="Prefix(p, q) == (len(kp) <= len(kq) and forall(j, 0, len(kp), ord(kp[j]) == ord(kq[j])))",
      note="get_subtrie/suffixes rely on: p is a prefix of q iff key(p) is a string prefix of key(q)")

# ---- one subtree relation, four implementations ---------------------------------------------------------------------
# evaluator / XPath elimination / tree insertion ask helpers.is_prefix, the mutator and count() ask parent_reflexive /
# parent_or_child, the language's `inside` asks isla_predicates.in_tree.  Over the four contracts only: they are the
# same relation (in_tree with its arguments swapped), and parent_or_child is its symmetric closure.
lemma("subtree_relation_implementations_agree", props=["C16", "C04"],
      types={"t": "Any", "p": "Path", "q": "Path", "a": "Bool", "b": "Bool", "c": "Bool", "d": "Bool", "e": "Bool"},
      hyps="post('is_prefix', path_1=p, path_2=q, result=a) and "
           "post('parent_reflexive', path_1=p, path_2=q, result=b) and "
           "post('in_tree', _=t, path_1=q, path_2=p, result=c) and "
           "post('parent_or_child', path_1=p, path_2=q, result=d) and "
           "post('in_tree', _=t, path_1=p, path_2=q, result=e)",
      goal="a == b and b == c and d == (c or e)",
      note="helpers.is_prefix(p, q) == helpers.parent_reflexive(p, q) == inside(q, p); "
           "parent_or_child(p, q) == inside(q, p) or inside(p, q)")
