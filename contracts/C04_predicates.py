# Structural predicates (property C04).  Post-conditions are the property
# statement ("strictly earlier in document order with neither node below the
# other", "node 1 is in the subtree of node 2", ...) written over paths; the
# lemmas at the end show that `Before` *is* that notion, so the contract is
# not a restatement of the code.

spec("Prefix", "p, q", "len(p) <= len(q) and forall(j, 0, len(p), p[j] == q[j])",
     types={"p": "Path", "q": "Path"})

# first differing index is smaller, and such an index exists inside both paths
spec("Before", "p, q",
     "exists(k, 0, min(len(p), len(q)), forall(j, 0, k, p[j] == q[j]) and p[k] < q[k])",
     types={"p": "Path", "q": "Path"})

PRED = "isla/isla_predicates.py::"
T2 = {"_": "Any", "path_1": "Path", "path_2": "Path"}

contract(PRED + "is_before", props=["C04"], types=T2, returns="Bool",
         ensures="result == Before(path_1, path_2)",
         decreases="len(path_1)",
         native="isla.isla_predicates:is_before")

contract(PRED + "is_after", props=["C04"], types=T2, returns="Bool",
         ensures="result == Before(path_2, path_1)",
         native="isla.isla_predicates:is_after",
         note="after(n1,n2): n1 strictly later in document order, neither node below the other")

contract(PRED + "is_same_position", props=["C04"], types=T2, returns="Bool",
         ensures="result == (path_1 == path_2)",
         native="isla.isla_predicates:is_same_position")

contract(PRED + "is_different_position", props=["C04"], types=T2, returns="Bool",
         ensures="result == (not (path_1 == path_2))",
         native="isla.isla_predicates:is_different_position")

contract(PRED + "in_tree", props=["C04"], types=T2, returns="Bool",
         ensures="result == Prefix(path_2, path_1)",
         native="isla.isla_predicates:in_tree",
         note="inside(n1,n2): n1 is in the subtree of n2 (reflexive)")

contract(PRED + "is_direct_child", props=["C04"], types=T2, returns="Bool",
         ensures="result == (len(path_1) == len(path_2) + 1 and Prefix(path_2, path_1))",
         native="isla.isla_predicates:is_direct_child")

# --- Before is document order between prefix-incomparable nodes -------------
PQ = {"p": "Path", "q": "Path"}
lemma("before_irreflexive", props=["C04"], types={"p": "Path"}, hyps="True", goal="not Before(p, p)")
lemma("before_asymmetric", props=["C04"], types=PQ, hyps="Before(p, q)", goal="not Before(q, p)")
lemma("before_excludes_prefix", props=["C04"], types=PQ, hyps="Before(p, q)",
      goal="not Prefix(p, q) and not Prefix(q, p)")
lemma("prefix_tail", props=["C04"], types=PQ, hyps="len(p) > 0 and len(q) > 0 and p[0] == q[0]",
      goal="Prefix(p, q) == Prefix(p[1:], q[1:])")
lemma("before_tail", props=["C04"], types=PQ, hyps="len(p) > 0 and len(q) > 0 and p[0] == q[0]",
      goal="Before(p, q) == Before(p[1:], q[1:])")
lemma("before_total_on_incomparable", props=["C04"], types=PQ,
      uses=[("prefix_tail", {"p": "p", "q": "q"}), ("prefix_tail", {"p": "q", "q": "p"}),
            ("before_tail", {"p": "p", "q": "q"}), ("before_tail", {"p": "q", "q": "p"})],
      hyps="not Prefix(p, q) and not Prefix(q, p)",
      goal="Before(p, q) or Before(q, p)",
      cases=["len(p) > 0 and len(q) > 0 and p[0] == q[0]", "not (len(p) > 0 and len(q) > 0 and p[0] == q[0])"],
      ih=dict(guard="len(p) > 0 and len(q) > 0 and p[0] == q[0]",
              subst={"p": "p[1:]", "q": "q[1:]"}, measure="len(p)"),
      note="structural induction on p (the least differing index is found by recursion on the tails)")
lemma("before_transitive", props=["C04"], types={"p": "Path", "q": "Path", "r": "Path"},
      hyps="Before(p, q) and Before(q, r)", goal="Before(p, r)")

# --- the predicates, as their contracts describe them, partition the ordered node pairs ------------------------------
# Stated over the post-conditions of the real functions only (not over their bodies): for every pair of paths exactly
# one of "same position", "n1 properly inside n2", "n2 properly inside n1", "before", "after" holds, and after is the
# converse of before.  A change to one predicate that keeps its own clause but not the clause of its partner breaks this.
PART = {"t": "Any", "p": "Path", "q": "Path", "b": "Bool", "a": "Bool", "i1": "Bool", "i2": "Bool", "s": "Bool",
        "d": "Bool"}
PART_HYPS = ("post('is_before', _=t, path_1=p, path_2=q, result=b) and "
             "post('is_after', _=t, path_1=p, path_2=q, result=a) and "
             "post('in_tree', _=t, path_1=p, path_2=q, result=i1) and "
             "post('in_tree', _=t, path_1=q, path_2=p, result=i2) and "
             "post('is_same_position', _=t, path_1=p, path_2=q, result=s) and "
             "post('is_different_position', _=t, path_1=p, path_2=q, result=d)")
lemma("predicates_after_is_converse", props=["C04"],
      types={"t": "Any", "p": "Path", "q": "Path", "b": "Bool", "a": "Bool"},
      hyps="post('is_before', _=t, path_1=q, path_2=p, result=b) and "
           "post('is_after', _=t, path_1=p, path_2=q, result=a)",
      goal="a == b", note="after(n1, n2) iff before(n2, n1), over the two contracts only")
lemma("predicates_cover_every_pair", props=["C04"], types=PART,
      uses=[("before_total_on_incomparable", {"p": "p", "q": "q"})],
      hyps=PART_HYPS, goal="b or a or i1 or i2",
      note="every ordered node pair is related by before, after or inside (one way or the other)")
lemma("predicates_are_exclusive", props=["C04"], types=PART,
      uses=[("before_excludes_prefix", {"p": "p", "q": "q"}), ("before_excludes_prefix", {"p": "q", "q": "p"}),
            ("before_asymmetric", {"p": "p", "q": "q"})],
      hyps=PART_HYPS,
      goal="not (b and a) and not (b and (i1 or i2)) and not (a and (i1 or i2)) and (s == (i1 and i2)) and d == (not s)",
      note="before / after exclude each other and exclude inside; both inside directions hold exactly at the same "
           "position; different_position is the negation of same_position")
