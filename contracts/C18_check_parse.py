# ISLaSolver.check / parse / repair (C18, proved part): the way these methods
# COMPOSE the parser and the evaluator.  The parser (C10) and evaluate() (C03)
# are dependencies with ASSUMED contracts stated over ghost functions
#   Member(g, nt, s)   -- s is in the language of nonterminal nt of grammar g
#   PTree(g, nt, s)    -- the first parse tree EarleyParser yields for s
#   TreeOf(pt)         -- DerivationTree.from_parse_tree(pt)
#   Verdict(f, t, g)   -- evaluate(f, t, g) as 0 FALSE / 1 TRUE / 2 UNKNOWN
# (both functions are deterministic in their arguments: assumption).  What is
# PROVED for all inputs, from the real text of check/parse/repair:
#   check(str)  == Member and Verdict(parse tree) == TRUE
#   check(tree) == (Verdict == TRUE); UnknownResultError exactly on UNKNOWN
#   parse raises SyntaxError exactly for non-members, SemanticError exactly for
#     members whose tree is judged FALSE (when the check applies), and
#     otherwise returns the parsed tree
#   check(t) == check(str) whenever t is the tree the parser yields for the string
#   repair returns an input judged TRUE unchanged
# No exception other than the listed ones escapes (every call's exception edge
# is an obligation).

S = "isla/solver.py::ISLaSolver."
SOLV = "Rec:ISLaSolver"
DTREE = "Rec:DerivationTree"

# (the solver record with the fields formula / grammar / top_constant is declared in C02_solve.py)

spec("Member", "g, nt, s", "uf_bool('member', g, nt, s)", types={"nt": "Str", "s": "Str"})
spec("PTree", "g, nt, s", "uf_sort('ptree', 'Any', g, nt, s)", types={"nt": "Str", "s": "Str"}, returns="Any")
spec("TreeOf", "pt", "uf_sort('tree_of', 'DerivationTree', pt)", returns=DTREE)
spec("Verdict", "f, t, g", "uf_int('verdict', f, t, g)", returns="Int")

# ---- dependencies: assumed contracts --------------------------------------------------------------
contract("isla/parser.py::EarleyParser.parse@first", props=["C18"],
         types={"grammar": "Any", "nonterminal": "Str", "inp": "Str"}, returns="Any",
         raises={"SyntaxError": "not Member(grammar, nonterminal, inp)"},
         ensures="result == PTree(grammar, nonterminal, inp)",
         assumed=True,
         why_assumed="EarleyParser(grammar, start_symbol=nt).parse(s): first yielded tree, SyntaxError iff s is not in "
                     "the language (property C10, decided by the C10 checks); deterministic")
contract("isla/derivation_tree.py::DerivationTree.from_parse_tree", props=["C18"],
         types={"tree": "Any"}, returns=DTREE,
         ensures="result == TreeOf(tree)", assumed=True,
         why_assumed="conversion of a parse tree (C16 bounded battery: from_parse_tree/to_parse_tree round trip)")
contract("isla/evaluator.py::evaluate", props=["C18"],
         types={"formula": "Any", "reference_tree": DTREE, "grammar": "Any"}, returns="Rec:ThreeValuedTruth",
         ensures="result.val == Verdict(formula, reference_tree, grammar) and tv_ok(result.val)",
         assumed=True,
         why_assumed="evaluate() is a deterministic function of (formula, tree, grammar) with a three-valued verdict; "
                     "its agreement with the specification is property C03")

HINTS = {"callable_variant": True,
         "calls": {"EarleyParser(self.grammar, start_symbol=nonterminal)": "None",
                   "next(parser.parse(inp))": "call:EarleyParser.parse@first|self.grammar, nonterminal, inp",
                   "DerivationTree.from_parse_tree(parse_tree)": "call:DerivationTree.from_parse_tree|parse_tree"}}

VSTART = "Verdict(self.formula, TreeOf(PTree(self.grammar, '<start>', inp)), self.grammar)"

contract(S + "check@tree", props=["C18"], types={"self": SOLV, "inp": DTREE}, returns="Bool",
         raises={"UnknownResultError": "Verdict(self.formula, inp, self.grammar) == 2"},
         ensures={"true_iff_verdict_true": "result == (Verdict(self.formula, inp, self.grammar) == 1)",
                  "definite": "Verdict(self.formula, inp, self.grammar) != 2",
                  "three_valued": "tv_ok(Verdict(self.formula, inp, self.grammar))"},
         path_hints=dict(HINTS), crosscheck=False)

contract(S + "check@str", props=["C18"], types={"self": SOLV, "inp": "Str"}, returns="Bool",
         raises={"UnknownResultError": f"Member(self.grammar, '<start>', inp) and {VSTART} == 2"},
         ensures={"true_iff_parses_and_satisfies":
                      f"result == (Member(self.grammar, '<start>', inp) and {VSTART} == 1)"},
         path_hints=dict(HINTS), crosscheck=False)

VNT = "Verdict(self.formula, TreeOf(PTree(self.grammar, nonterminal, inp)), self.grammar)"
CHECKED = "(not skip_check and nonterminal == '<start>')"
contract(S + "parse", props=["C18"],
         types={"self": SOLV, "inp": "Str", "nonterminal": "Str", "skip_check": "Bool", "silent": "Bool"},
         returns=DTREE,
         raises={"SyntaxError": "not Member(self.grammar, nonterminal, inp)",
                 "SemanticError": f"Member(self.grammar, nonterminal, inp) and {CHECKED} and {VNT} == 0",
                 "UnknownResultError": f"Member(self.grammar, nonterminal, inp) and {CHECKED} and {VNT} == 2"},
         ensures={"only_members": "Member(self.grammar, nonterminal, inp)",
                  "the_parsed_tree": "result == TreeOf(PTree(self.grammar, nonterminal, inp))",
                  "satisfies_when_checked": f"implies({CHECKED}, {VNT} == 1)"},
         path_hints=dict(HINTS, defaults={"nonterminal": "'<start>'", "skip_check": "False", "silent": "False"}),
         crosscheck=False)

# check gives the same answer on the tree the parser yields as on the string (for an unambiguous grammar that is
# "the" tree of the string)
lemma("check_tree_agrees_with_check_string", props=["C18"],
      types={"self": SOLV, "inp": "Str", "r_str": "Bool", "r_tree": "Bool"},
      hyps="Member(self.grammar, '<start>', inp) and "
           "post('ISLaSolver.check@str', self=self, inp=inp, result=r_str) and "
           "post('ISLaSolver.check@tree', self=self, inp=TreeOf(PTree(self.grammar, '<start>', inp)), result=r_tree)",
      goal="r_str == r_tree")

# repair: an input that check() accepts is returned unchanged (fragment: up to the point where the
# constraint is instantiated for the broken input -- under the pre-condition that point is unreachable)
contract(S + "repair@valid_tree", props=["C18"],
         types={"self": SOLV, "inp": DTREE, "fix_timeout_seconds": "Any"}, returns=f"Opt[{DTREE}]",
         requires="Verdict(self.formula, inp, self.grammar) == 1",
         fragment=dict(rule="until_stmt", starts_with="formula = self.top_constant.map"),
         ensures={"returned_unchanged": "result is not None and result == inp"},
         path_hints=dict(HINTS, callable_variant=False, calls=dict(HINTS["calls"], **{"is_successful(self.top_constant)": "top_ok"})),
         closure={"top_ok": "Bool"},
         crosscheck=False)
contract(S + "repair@valid_str", props=["C18"],
         types={"self": SOLV, "inp": "Str", "fix_timeout_seconds": "Any"}, returns=f"Opt[{DTREE}]",
         requires=f"Member(self.grammar, '<start>', inp) and {VSTART} == 1",
         fragment=dict(rule="until_stmt", starts_with="formula = self.top_constant.map"),
         ensures={"returned_parsed_unchanged": "result is not None and result == TreeOf(PTree(self.grammar, '<start>', inp))"},
         path_hints=dict(HINTS, callable_variant=False, calls=dict(HINTS["calls"], **{"is_successful(self.top_constant)": "top_ok"})),
         closure={"top_ok": "Bool"},
         crosscheck=False)


# ---- mutate only hands out what repair returned (C18) ------------------------------------------------------------------
# repair's general post-condition "a returned tree is judged TRUE" is ASSUMED here (its search is outside the subset
# and is checked by bounded C18: `repair:returns-constraint-violating-tree`); PROVED from mutate's real text: the
# tree mutate returns is one that repair returned for a mutant, hence judged TRUE -- mutate adds no path of its own
# that could return an unrepaired mutant.
contract(S + "repair@any", props=["C18"],
         types={"self": SOLV, "inp": DTREE, "fix_timeout_seconds": "Any"}, returns=f"Opt[{DTREE}]",
         ensures="implies(result is not None, Verdict(self.formula, result, self.grammar) == 1)",
         assumed=True, path_hints={"callable_variant": True},
         why_assumed="general post-condition of repair (abstraction, Z3 completion): decided by bounded C18; the early "
                     "exit for already valid inputs is proved above (repair@valid_tree / repair@valid_str)")
contract(S + "mutate@tree", props=["C18"],
         types={"self": SOLV, "inp": DTREE, "min_mutations": "Int", "max_mutations": "Int", "fix_timeout_seconds": "Any"},
         returns=DTREE,
         ensures={"result_is_judged_true": "Verdict(self.formula, result, self.grammar) == 1"},
         loops={0: dict(invariant="True")},
         path_hints={"calls": {"Mutator(self.grammar, min_mutations=min_mutations, max_mutations=max_mutations, graph=self.graph)": "None",
                               "mutator.mutate(inp)": "uf_sort('mutant', 'DerivationTree', inp, uf_int('round'))",
                               "mutated.structurally_equal(inp)": "uf_bool('same_structure', mutated, inp)",
                               "is_successful(maybe_fixed)": "maybe_fixed is not None",
                               "maybe_fixed.unwrap()": "maybe_fixed"}},
         crosscheck=False,
         note="termination of the `while True` loop is not proved (bounded C18 runs mutate under a watchdog)")
