# helpers.merge_intervals (C15, proved part): the union of the integer sets is
# preserved and the result is in normal form (sorted, pairwise separated by a
# gap).  Intervals are (lo, hi) pairs, closed on both ends.

MI = "isla/helpers.py::merge_intervals"
IV = "Tuple[Int,Int]"
IVS = "List[Tuple[Int,Int]]"

spec("In", "iv, x", "iv[0] <= x and x <= iv[1]")
spec("InAny", "ivs, x", "exists(j, 0, len(ivs), ivs[j][0] <= x and x <= ivs[j][1])", types={"ivs": IVS})
# normal form: every interval non-empty, strictly increasing with a gap of at least one integer
spec("NF", "ivs", "forall(j, 0, len(ivs), ivs[j][0] <= ivs[j][1]) and "
                  "forall(j, 0, len(ivs) - 1, ivs[j][1] + 1 < ivs[j + 1][0])", types={"ivs": IVS})

contract(MI + ".<locals>.merge_two_intervals", props=["C15"],
         types={"i1": IV, "i2": IV}, returns=IVS,
         requires="i1[0] <= i1[1] and i2[0] <= i2[1] and i1[0] <= i2[0]",
         ensures={"count": "len(result) == 1 or len(result) == 2",
                  "normal_form": "NF(result)",
                  "starts": "result[0][0] == i1[0] and result[len(result) - 1][0] <= i2[0]",
                  "hull": "forall(j, 0, len(result), i1[0] <= result[j][0] and result[j][1] <= max(i1[1], i2[1]))",
                  "union": "forall(x, i1[0] - 2, max(i1[1], i2[1]) + 3, InAny(result, x) == (In(i1, x) or In(i2, x)))"},
         native=None, crosscheck=False,
         note="nested function: replayed through merge_intervals (bounded_C15)")

# the fold step `lambda acc, interval: [interval] if not acc else acc[:-1] + merge_two_intervals(acc[-1], interval)`
contract(MI + ".<lambda#4>", props=["C15"],
         types={"acc": IVS, "interval": IV}, returns=IVS,
         requires="NF(acc) and interval[0] <= interval[1] and (len(acc) == 0 or acc[len(acc) - 1][0] <= interval[0])",
         ensures={"nonempty": "len(result) >= 1",
                  "normal_form": "NF(result)",
                  "last_start": "result[len(result) - 1][0] <= interval[0]",
                  "union": "forall(x, lo, hi, InAny(result, x) == (InAny(acc, x) or In(interval, x)))"},
         closure={"lo": "Int", "hi": "Int"},
         native=None, crosscheck=False,
         note="lo/hi: an arbitrary window of integers (ghost parameters): the union is preserved on every window")

# ---- the fold over the sorted list: induction over the prefix length ---------
# reduce(step, sorted(xs, key=start), []) -- `reduce` and `sorted` are library
# functions with ASSUMED contracts (reduce = left fold; sorted = stable
# permutation ordered by the key).  Given those, the three lemmas below are the
# induction proving: the result is in normal form and has the same union.
spec("FoldInv", "xs, acc, k, lo, hi",
     "NF(acc) and (k > 0 or len(acc) == 0) and "
     "(k == 0 or (len(acc) > 0 and acc[len(acc) - 1][0] <= xs[k - 1][0])) and "
     "forall(x, lo, hi, InAny(acc, x) == exists(j, 0, k, xs[j][0] <= x and x <= xs[j][1]))",
     types={"xs": IVS, "acc": IVS})
SORTED = ("forall(j, 0, len(xs), xs[j][0] <= xs[j][1]) and forall(j, 0, len(xs) - 1, xs[j][0] <= xs[j + 1][0])")
FT = {"xs": IVS, "acc": IVS, "acc2": IVS, "k": "Int", "lo": "Int", "hi": "Int"}
lemma("merge_fold_base", props=["C15"], types=FT, hyps="len(acc) == 0 and k == 0", goal="FoldInv(xs, acc, k, lo, hi)")
lemma("merge_fold_pre", props=["C15"], types=FT,
      hyps=SORTED + " and 0 <= k and k < len(xs) and FoldInv(xs, acc, k, lo, hi)",
      goal="pre('merge_intervals.<lambda#4>', acc=acc, interval=xs[k], lo=lo, hi=hi)")
lemma("merge_fold_step", props=["C15"], types=FT,
      hyps=SORTED + " and 0 <= k and k < len(xs) and FoldInv(xs, acc, k, lo, hi) and "
           "post('merge_intervals.<lambda#4>', acc=acc, interval=xs[k], result=acc2, lo=lo, hi=hi)",
      goal="FoldInv(xs, acc2, k + 1, lo, hi)")

# ---- negative numbers: "-" followed by a regex with intervals I yields { -x | x in I } -----------
NI = "isla/z3_helpers.py::numeric_intervals_from_concat"
contract(NI + ".<lambda#4>", props=["C15"], types={"interval": IV}, returns=IV,
         closure={"x": "Int"},
         requires="interval[0] <= interval[1]",
         ensures={"negated_set": "In(result, x) == In(interval, 0 - x)", "non_empty": "result[0] <= result[1]"},
         native="lambda:isla.z3_helpers", crosscheck=False)
contract(NI + ".<lambda#3>", props=["C15"], types={"list_of_intervals": IVS}, returns=IVS,
         closure={"x": "Int"},
         requires="NF(list_of_intervals)",
         ensures={"normal_form": "NF(result)",
                  "negated_union": "InAny(result, x) == InAny(list_of_intervals, 0 - x)"},
         crosscheck=False,
         note="reversing keeps the normal form because negation reverses the order")
