#!/usr/bin/env python3
"""Collects confirmed seeded changes into /verif/seeded/<id>/ (patch.diff, demo.py, meta.json) and prints the
detection table for DESIGN.md.  Inputs: the sub-agents' deliverables under /tmp/seed/<Cxx>/_seed/<A|B>, my
confirmation logs /tmp/seedverify/<id>.result and the check runs /tmp/seedrun/results/<id>/out_<pid>.txt."""
import glob, json, os, re, shutil, sys
ROOT = os.path.dirname(os.path.dirname(os.path.abspath(__file__)))
rows = []
for res in sorted(glob.glob("/tmp/seedverify/*.result")):
    name = os.path.basename(res)[:-7]
    pid, ab = name[:3], name[3:]
    sd = f"/tmp/seed/{pid}/_seed/{ab}"
    txt = open(res, errors="replace").read()
    m = re.search(r"SUMMARY name=\S+ head=(\d+) patch=(\d+)", txt)
    if not m or not os.path.exists(os.path.join(sd, "patch.diff")):
        continue
    head, patch = int(m.group(1)), int(m.group(2))
    broken = re.findall(r"^    (tests\.\S+) (\w+)$", txt, re.M)
    reruns = re.findall(r"^rerun (\S+): exit (\d+)(.*)$", txt, re.M)
    head_fail = re.findall(r"same test on HEAD .*: exit (\d+)", txt)
    still = [t for t, e, _ in reruns if e != "0"]
    flaky_on_head = bool(head_fail) and all(h != "0" for h in head_fail)
    suite_ok = (not still) or flaky_on_head
    if "PATCH DOES NOT APPLY" in txt:
        suite_ok = False
    confirmed = head == 0 and patch != 0 and suite_ok
    try:
        ameta = json.load(open(os.path.join(sd, "meta.json")))
    except Exception:
        ameta = {}
    runs = []
    for out in sorted(glob.glob(f"/tmp/seedrun/results/{name}/out_C*.txt")):
        o = open(out, errors="replace").read()
        cp = os.path.basename(out)[4:-4]
        ex = re.findall(r"^exit=(\d+)", o, re.M)
        viol = re.findall(r"^VIOLATION property=\S+ replay=\S+(.*)$\n  (.*)$", o, re.M)
        def tier_of(line: str) -> str:
            return "proof" if any(k in line for k in ("obligation ", "refuted by", "frame:", "@guard", ":post:", ":pre@", ":inv-", ":hint")) else "bounded"
        tiers = sorted({tier_of(v[1]) for v in viol})
        runs.append(dict(check=cp, exit=int(ex[-1]) if ex else None, violations=len(viol), tiers=tiers,
                         first=[(v[1][:260] + (" [no-failing-input-found]" if "no-failing" in v[0] else "")) for v in viol[:3]],
                         summary=(re.findall(r"^\[C\d\d\] tier=.*$", o, re.M) or [""])[-1]))
    detected = any(r["exit"] == 1 and r["violations"] > 0 for r in runs)
    dst = os.path.join(ROOT, "seeded", name)
    if confirmed:
        os.makedirs(dst, exist_ok=True)
        shutil.copy(os.path.join(sd, "patch.diff"), os.path.join(dst, "patch.diff"))
        shutil.copy(os.path.join(sd, "demo.py"), os.path.join(dst, "demo.py"))
        meta = dict(id=name, property=pid, summary=ameta.get("summary", ""), needs=ameta.get("needs", ""),
                    files=ameta.get("files", []),
                    what_i_ran=dict(
                        confirm="tools/seed_verify.sh: scratch worktree of /repo at HEAD; demo.py on HEAD (exit %d), "
                                "git apply patch.diff, demo.py (exit %d), full suite with the patch (-n 8) compared with "
                                "the baseline's stable list; tests not passing were re-run alone" % (head, patch),
                        stable_tests_not_passing_in_full_run=[t for t, _ in broken],
                        reruns=[dict(test=t, exit=int(e)) for t, e, _ in reruns],
                        randomised_test_also_fails_on_HEAD=flaky_on_head,
                        checks="tools/seed_run.sh: quick checks against a scratch worktree with the patch applied "
                               "(PYTHONPATH/PYVC_REPO_SRC), /verif at the commit of the run"),
                    check_runs=runs, detected=detected,
                    author_note="written by an independent sub-agent that saw only the property text")
        json.dump(meta, open(os.path.join(dst, "meta.json"), "w"), indent=1)
    rows.append((name, pid, confirmed, runs, detected, ameta.get("summary", "")[:150].replace("\n", " "), still, flaky_on_head))
print("| seed | property | change (author's summary) | confirmed | caught by | first report |")
print("|---|---|---|---|---|---|")
for name, pid, conf, runs, det, summ, still, fl in rows:
    best = {}
    for r in runs:        # the last run of each check counts (earlier ones used an older /verif)
        best[r["check"]] = r
    runs = list(best.values())
    by = ", ".join(f"{r['check']}: exit {r['exit']}, {r['violations']} violation lines ({'+'.join(r.get('tiers', [])) or '-'})" for r in runs) or "not run yet"
    first = (runs[0]["first"][0][:160] if runs and runs[0]["first"] else "")
    c = "yes" if conf else ("NO: " + ",".join(still) if still else "no")
    print(f"| {name} | {pid} | {summ} | {c} | {by if runs else 'not run yet'} | {first} |")
