#!/bin/bash
# processes /tmp/seedrun/queue (lines: <seed-dir> <name> <pid> [<pid>...]) one at a time
Q=/tmp/seedrun/queue; mkdir -p /tmp/seedrun/results; touch $Q
while true; do
  line=$(head -1 $Q)
  if [ -z "$line" ]; then sleep 20; continue; fi
  sed -i 1d $Q
  set -- $line
  /verif/tools/seed_run.sh "$@"
  for f in /tmp/seedrun/results/$2/out_*.txt; do
    echo "$2 $(basename $f .txt | sed s/out_//) $(grep -c '^VIOLATION' $f) violations; $(tail -2 $f | tr '\n' ' ')" >> /tmp/seedrun/summary.txt
  done
done
