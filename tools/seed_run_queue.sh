#!/bin/bash
# worker: pops lines "<seed-dir> <name> <pid> [<pid>...]" from /tmp/seedrun/queue (flock); several may run
Q=/tmp/seedrun/queue; mkdir -p /tmp/seedrun/results; touch $Q
while true; do
  line=$(flock $Q.lock bash -c "head -1 $Q; sed -i 1d $Q")
  if [ -z "$line" ]; then sleep 20; continue; fi
  set -- $line
  /verif/tools/seed_run.sh "$@"
  for f in /tmp/seedrun/results/$2/out_*.txt; do
    echo "$2 $(basename $f .txt | sed s/out_//) $(grep -c '^VIOLATION' $f) violations; $(tail -n 2 $f | tr '\n' ' ')" >> /tmp/seedrun/summary.txt
  done
done
