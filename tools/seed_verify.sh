#!/bin/bash
# usage: seed_verify.sh <seed-dir with patch.diff demo.py> <name>
# Confirms in a scratch worktree of /repo: demo passes on HEAD, fails with the patch; the baseline's stable tests pass with the patch.
set -u
SD=$(readlink -f "$1"); NAME=$2
WT=/tmp/seedverify/$NAME
OUT=/tmp/seedverify/$NAME.result
rm -rf "$WT"; mkdir -p /tmp/seedverify
ok=0
for try in 1 2 3 4 5 6; do
  if git -C /repo worktree add --detach "$WT" HEAD >/dev/null 2>&1; then ok=1; break; fi
  git -C /repo worktree prune >/dev/null 2>&1; rm -rf "$WT"; sleep 7
done
[ $ok = 1 ] || { echo "worktree failed" > "$OUT.failed"; exit 3; }
cd "$WT"
export PYTHONPATH="$WT/src"
{
echo "== seed $NAME"
timeout 900 /venv/bin/python "$SD/demo.py" > "$WT/demo_head.txt" 2>&1; H=$?
echo "demo on HEAD: exit $H"
if ! git apply "$SD/patch.diff"; then echo "PATCH DOES NOT APPLY"; fi
git diff --stat | tail -3
timeout 900 /venv/bin/python "$SD/demo.py" > "$WT/demo_patch.txt" 2>&1; P=$?
echo "demo with patch: exit $P"; tail -5 "$WT/demo_patch.txt"
/venv/bin/python -m pytest -q -p no:cacheprovider -p no:randomly --timeout=900 --continue-on-collection-errors -n ${SEED_JOBS:-6} --junitxml="$WT/junit.xml" > "$WT/pytest.txt" 2>&1
tail -3 "$WT/pytest.txt"
/venv/bin/python - "$WT/junit.xml" <<'PY'
import json, sys, xml.etree.ElementTree as ET
base = json.load(open('/root/.vp/BASELINE.json'))
stable = set(base['stable_pass'])
t = ET.parse(sys.argv[1]).getroot()
res = {}
for tc in t.iter('testcase'):
    name = tc.get('classname') + '::' + tc.get('name')
    bad = any(ch.tag in ('failure', 'error') for ch in tc)
    skipped = any(ch.tag == 'skipped' for ch in tc)
    res[name] = 'fail' if bad else ('skip' if skipped else 'pass')
broken = sorted(n for n in stable if res.get(n) != 'pass')
print("stable tests not passing with patch:", len(broken))
for b in broken: print("   ", b, res.get(b))
open(sys.argv[1] + '.broken', 'w').write("".join(b + "\n" for b in broken))
PY
# rerun broken stable tests one by one (load flakiness)
if [ -s "$WT/junit.xml.broken" ]; then
  while read -r t; do
    f=$(echo "$t" | sed -E 's/^tests\.([a-z_0-9]+)\.([A-Za-z0-9_]+)::(.*)$/tests\/\1.py::\2::\3/')
    R=1
    for attempt in 1 2 3; do
      /venv/bin/python -m pytest -q -p no:cacheprovider --timeout=900 "$f" > "$WT/rerun.txt" 2>&1; R=$?
      [ $R = 0 ] && break
    done
    echo "rerun $f: exit $R (attempts: $attempt)"
    if [ $R != 0 ]; then
      # does it also fail on the unchanged tree?  (randomised tests of the suite)
      git stash -q; H2=1
      for attempt in 1 2 3; do /venv/bin/python -m pytest -q -p no:cacheprovider --timeout=900 "$f" > "$WT/rerun_head.txt" 2>&1; H2=$?; [ $H2 != 0 ] && break; done
      git stash pop -q
      echo "   same test on HEAD (3 runs, stops at first failure): exit $H2"
    fi
  done < "$WT/junit.xml.broken"
fi
echo "SUMMARY name=$NAME head=$H patch=$P"
} > "$OUT" 2>&1
cd /; git -C /repo worktree remove --force "$WT" >/dev/null 2>&1
