#!/bin/bash
# processes /tmp/seedverify/queue (lines: <seed-dir> <name>) one at a time, forever; append lines to enqueue
Q=/tmp/seedverify/queue; mkdir -p /tmp/seedverify; touch $Q
while true; do
  line=$(head -1 $Q)
  if [ -z "$line" ]; then sleep 30; continue; fi
  sed -i 1d $Q
  set -- $line
  [ -f /tmp/seedverify/$2.result ] && continue
  SEED_JOBS=8 /verif/tools/seed_verify.sh "$1" "$2"
done
