#!/bin/bash
# worker: pops lines "<seed-dir> <name>" from /tmp/seedverify/queue (flock) and verifies them; several may run
Q=/tmp/seedverify/queue; mkdir -p /tmp/seedverify; touch $Q
while true; do
  line=$(flock $Q.lock bash -c "head -1 $Q; sed -i 1d $Q")
  if [ -z "$line" ]; then sleep 30; continue; fi
  set -- $line
  [ -f /tmp/seedverify/$2.result ] && continue
  SEED_JOBS=${SEED_JOBS:-8} /verif/tools/seed_verify.sh "$1" "$2"
done
