#!/usr/bin/env python3
"""Regenerates MANIFEST.json from the table below (keeps it schema-valid)."""
import json, os
ROOT = os.path.dirname(os.path.dirname(os.path.abspath(__file__)))

CHECKS = {
    # id: (category, level text, level note, technique, design_ref)
    "C04": ("other",
            "Proved for all paths: before/after/inside/direct_child/same_position/different_position against the "
            "document-order definition, plus lemmas that the definition is a strict order total on prefix-incomparable "
            "nodes. nth/consecutive/level: bounded exhaustive small-scope check against independent definitions, not proved.",
            "pyvc VC generator + z3; CPython semantics of DESIGN 2.2; bounded part: enumeration bound stated in evidence",
            "contract-based deductive verification (own AST->SMT VC generator, z3/cvc5) + bounded contract checking",
            "6/C04"),
}
NOT_YET = {}
ALL = [f"C{i:02d}" for i in range(1, 23)]

def main():
    checks = []
    for pid, (cat, text, note, tech, ref) in sorted(CHECKS.items()):
        checks.append(dict(
            property_id=pid,
            quick_cmd=f"./check {pid} --tier quick",
            thorough_cmd=f"./check {pid} --tier thorough",
            evidence_file=f"evidence/{pid}.json",
            replay_cmd_template=f"./check {pid} --replay {{path}}",
            engine="pyvc+bounded",
            level_claimed=dict(category=cat, text=text, design_ref=f"DESIGN.md section {ref}"),
            level_note=note, technique=tech))
    na = [dict(property_id=p, reason=NOT_YET.get(p, "check not built yet in this session (work in progress); not claimed"))
          for p in ALL if p not in CHECKS]
    man = dict(
        version=1,
        setup_cmd="./setup.sh",
        hooks=dict(guard="ISLA_VERIF", enable="ISLA_VERIF=1 in the environment of the check (no hook commits exist: contracts are sidecars)",
                   baseline_off_cmd="cd /repo && /venv/bin/python -m pytest -ra -q -p no:cacheprovider --timeout=900 --continue-on-collection-errors",
                   source_commits=[], add_only=True),
        engines=[dict(name="pyvc", path="pyvc/", serves_properties=sorted(CHECKS),
                      kind_free_text="verification-condition generator for a Python subset (ast -> z3), sidecar contracts in contracts/, "
                                     "re-reads /repo/src on every run; cvc5 and z3-4.8 as fallback back ends"),
                 dict(name="bounded", path="bounded/", serves_properties=sorted(CHECKS),
                      kind_free_text="bounded contract checking of the real functions against independent spec functions "
                                     "(stand-in where the prover cannot reach; labelled bounded, never counted as proved)")],
        checks=checks, not_applicable=na,
        notes="See DESIGN.md. Exit codes: 0 held, 1 violation, 2 undecided, 3 checker failure.")
    with open(os.path.join(ROOT, "MANIFEST.json"), "w") as fh:
        json.dump(man, fh, indent=1)
    print("MANIFEST.json:", len(checks), "checks,", len(na), "not_applicable")

if __name__ == "__main__":
    main()
