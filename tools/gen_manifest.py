#!/usr/bin/env python3
"""Regenerates MANIFEST.json from the table below (keeps it schema-valid)."""
import json, os
ROOT = os.path.dirname(os.path.dirname(os.path.abspath(__file__)))

MIX = 'contract-based deductive verification (own Python AST->SMT VC generator over the real source, z3/cvc5 back ends, sidecar contracts) + bounded contract checking of the real functions against independent spec functions (stand-in, not counted as proved)'
BND = "bounded contract checking of the real functions against independent spec functions (stand-in for deductive verification: the functions are outside the verifier's reach); nothing is proved"
NOTE_MIX = "trusted: z3/cvc5, the pyvc VC generator (cross-checked against CPython and by replaying every counter-model), CPython semantics of DESIGN 2.2, assumed library contracts listed in the evidence; bounded part: enumeration bounds stated in the evidence, oracles of bounded/ written from the specification text"
NOTE_BND = "nothing proved; trusted: the independent oracles in bounded/ (written from sphinx/islaspec.rst), parse_isla as front end of ref_eval, enumeration bounds stated in the evidence"
CHECKS = {
    "C01": ("other", "Bounded: every tree returned by solve() over a grid of grammars/constraints/settings is checked closed, grammar-valid, in the language and satisfying the constraint by independent oracles. Proved (supporting only): call shape of the elimination chain and fast path, cached open-flag invariant of DerivationTree through __init__/is_open/replace_path, list_del; the nested solve() of the unsat support restores queue / solutions / start_time / timeout_seconds on every normal exit (frame of the save-restore block in process_new_state). The elimination chain itself is not proved.", NOTE_MIX, MIX, "6/C01"),
    "C02": ("other", "Proved on the AST: every dispatch-chain element on the solve path accepts the arguments it is called with (no TypeError instead of Z3 fallback); the two sticky exits of solve() (exhausted queue -> StopIteration, passed deadline -> TimeoutError, nothing else written); operator binding of the 36 fast-path cases; the save-restore frame around the nested solve() of the unsat support. Bounded: exceptions escaping solve() and stickiness of StopIteration/TimeoutError over call histories.", NOTE_MIX, MIX, "6/C02"),
    "C03": ("other", "Proved: trie key encoding/decoding incl. round-trip and prefix lemmas, Kleene all/any, the verdict combination at the end of evaluate_quantified_formula, the semantic-predicate branch of evaluate_predicates_action (quantifier-elimination strategy: FALSE is never mistaken for not-ready), SMT atoms with unassigned variables / open substitutions are UNKNOWN, call shape of the evaluator chains. Bounded: evaluate()/check() == independent reference semantics on enumerated closed trees (both strategies reached).", NOTE_MIX, MIX, "6/C03"),
    "C04": ("other", "Proved for all paths: before/after/inside/direct_child/same_position/different_position against the document-order definition, plus lemmas that the definition is a strict order total on prefix-incomparable nodes. nth/consecutive/level: bounded exhaustive small-scope check against independent definitions, not proved.", NOTE_MIX, MIX, "6/C04"),
    "C05": ("other", "Proved: 17 fast-path constructors (not/and/or/=/</<=/>/>=/-/mod/str.len/str.++/str.at/str.substr/str.to_code) equal the solver's own operators and never raise; operator binding: each of the 36 case functions of the dispatch chain answers only (for 31 of them: exactly) for the z3 head symbol its constructor was verified against, from the real guard text over an assumed model of z3's term inspection; call shape of the evaluator chain. Bounded: regex constructors, div/pow/str.to.int, is_valid and evaluate end-to-end against Z3.", NOTE_MIX, MIX, "6/C05"),
    "C06": ("other", "Proved: all ThreeValuedTruth operations equal their Kleene tables and are monotone in the information order, for sequences of any length; the verdict combination of evaluate_quantified_formula never gives a definite verdict that further matches could contradict; evaluate_smt_formula answers UNKNOWN whenever a free variable is unassigned or a substituted tree is open. Bounded: verdicts on every open prefix of enumerated closed trees never contradict the completion (the potential-match analysis itself is not proved).", NOTE_MIX, MIX, "6/C06"),
    "C07": ("exploration", "Bounded only: unparse/parse fix-point, equality and equal verdicts over a generated constraint family.", NOTE_BND, BND, "6/C07"),
    "C08": ("other", "Bounded: sugared constraints vs an independently written desugaring, on enumerated trees. Proved (supporting): list_set, nth_occ, is_prefix used by XPath elimination.", NOTE_MIX, MIX, "6/C08"),
    "C09": ("other", "Proved for all formulas and all assignments, over an abstract semantics of formula ASTs: Formula.__and__/__or__/__neg__ mean conjunction/disjunction/negation (n-ary, by fold invariants); six of the seven case functions of convert_to_nnf answer exactly for their formula classes and their answer means the formula (negated iff `negate`), with the dispatch chain as assumed induction hypothesis and a lemma that some case always answers. Bounded: negation, NNF, DNF, renaming, and/or on generated n-ary ASTs keep/invert the verdict and never raise (incl. the SMT-level case and DNF, which are not proved).", NOTE_MIX, MIX, "6/C09"),
    "C10": ("other", "Proved for every grammar and input (soundness half): every state that EarleyParser's scan / predict / complete / fill_chart put into a chart column is justified by a derivation (loop invariants over the real code, heap-aware, Column.add with frame conditions), hence a finished start-symbol state spanning the input implies that the start symbol derives it -- over the definition of derivation as axioms, an abstract-data-type view of rule tuples, and parser.nullable's fix point (proved: its result is sound and closed under the rules, i.e. exactly the nullable symbols; the wiring self.epsilon = nullable(cgrammar) is assumed). Completeness of the chart (members are accepted), tree extraction/pruning and ISLaSolver.parse: bounded, exhaustive per bound, against an independent recogniser on fixed and random grammars.", NOTE_MIX, MIX, "6/C10"),
    "C11": ("exploration", "Bounded: per-character escape table exhaustive on 0..0x24F, string and grammar round trips on critical alphabets.", NOTE_BND, BND, "6/C11"),
    "C12": ("other", "Bounded: post-conditions of expand_tree / mutate over seeds and a choice oracle. Proved (supporting): parent_or_child.", NOTE_MIX, MIX, "6/C12"),
    "C13": ("other", "Bounded: post-condition of insert_tree for all method subsets. Proved (supporting): is_prefix.", NOTE_MIX, MIX, "6/C13"),
    "C14": ("exploration", "Bounded only: exact length of create_fixed_length_tree, exact count and no reachable needle after count() completion, and the numeric requirement (the <int> tree built for a Z3 model value has that decimal value: through solve() on fixed-width signed numerals and by calling ISLaSolver.extract_model_value directly).", NOTE_BND, BND, "6/C14"),
    "C15": ("other", "Proved: merge_two_intervals and the fold step of merge_intervals preserve the union and the normal form, with the induction lemmas for the fold. Bounded: numeric_intervals_from_regex vs an independent matcher; compress_concatenation_elements language equality.", NOTE_MIX, MIX, "6/C15"),
    "C16": ("other", "Proved for all trees/paths: path helpers, list_set/list_del (whole view), nth_occ, trie key encode/decode + lemmas, the cached open-flag representation invariant through __init__, is_open, is_complete and replace_path, is_valid_path == every index in range, get_subtree returns the node the path leads to. Bounded: operation histories on trees with up to 40 children (strings, search, trie views, hashes, replace).", NOTE_MIX, MIX, "6/C16"),
    "C17": ("other", "Proved on the AST: to_json/__getstate__ assign nothing reachable from their parameters. Bounded: cache/serialise histories, SMT literal pickling, CLI JSON.", NOTE_MIX, MIX, "6/C17"),
    "C18": ("other", "Proved for all inputs from the real text of ISLaSolver.check/parse/repair: check(str) is true exactly when the string is a member and its parsed tree is judged TRUE, parse raises SyntaxError exactly for non-members and SemanticError exactly for members judged FALSE, check(tree) agrees with check(str) on the parser's tree, repair returns an accepted input unchanged, mutate returns only trees that repair returned (hence judged TRUE, over repair's assumed general post-condition), no other exception escapes -- over ASSUMED contracts of EarleyParser.parse (C10) and evaluate (C03). Bounded: the same relations end-to-end and mutate/repair results against independent oracles.", NOTE_MIX, MIX, "6/C18"),
    "C19": ("other", "Bounded: exit-code/output contract of cli.main over generated file sets (in-process and as subprocess), incl. malformed grammars by file and by option, and the printed output of solve saved to a file and checked. Proved (one fragment): get_input_string removes exactly one trailing line break from an input file's content and nothing else, without IndexError on an empty file.", NOTE_MIX, MIX, "6/C19"),
    "C20": ("other", "Proved for all closed arguments from the real text of isla_predicates.crop/just/count/octal_to_dec_both_trees: the verdict is TRUE exactly when the argument already has the requested width (crop: needs no cropping), every proposed replacement has exactly the requested width, keeps the argument's nonterminal and is the padded/cropped argument; count is TRUE exactly when the needle count equals the number; octal_to_decimal on two trees is TRUE exactly when the numbers agree -- over ASSUMED contracts of the parser (C10), str(tree), int(str) and str.ljust/rjust. Also call shape of the octal_to_dec chain. Bounded, exhaustive small scope: the same predicates end-to-end incl. the conversion branches of octal_to_decimal and count's tree completion.", NOTE_MIX, MIX, "6/C20"),
    "C21": ("exploration", "Bounded only: solutions for the shipped formalizations (CSV, XML, reST, simple TAR) pass independent validators, under the evaluation scripts' settings, the test-suite's settings and the solver's own default settings (quick: up to 1 500 reST documents per instance).", NOTE_BND, BND, "6/C21"),
    "C22": ("exploration", "Bounded only: equal solution sequences in pairs of fresh processes with equal hash seed and random seed; static scan for nondeterminism sources.", NOTE_BND, BND, "6/C22"),
}
NOT_YET = {}
ALL = [f"C{i:02d}" for i in range(1, 23)]

def main():
    checks = []
    for pid, (cat, text, note, tech, ref) in sorted(CHECKS.items()):
        checks.append(dict(
            property_id=pid,
            quick_cmd=f"./check {pid} --tier quick",
            thorough_cmd=f"./check {pid} --tier thorough",
            evidence_file=f"evidence/{pid}.json",
            replay_cmd_template=f"./check {pid} --replay {{path}}",
            engine="pyvc+bounded",
            level_claimed=dict(category=cat, text=text, design_ref=f"DESIGN.md section {ref}"),
            level_note=note, technique=tech))
    na = [dict(property_id=p, reason=NOT_YET.get(p, "check not built yet in this session (work in progress); not claimed"))
          for p in ALL if p not in CHECKS]
    man = dict(
        version=1,
        setup_cmd="./setup.sh",
        hooks=dict(guard="ISLA_VERIF", enable="ISLA_VERIF=1 in the environment of the check (no hook commits exist: contracts are sidecars)",
                   baseline_off_cmd="cd /repo && /venv/bin/python -m pytest -ra -q -p no:cacheprovider --timeout=900 --continue-on-collection-errors",
                   source_commits=[], add_only=True),
        engines=[dict(name="pyvc", path="pyvc/", serves_properties=sorted(CHECKS),
                      kind_free_text="verification-condition generator for a Python subset (ast -> z3), sidecar contracts in contracts/, "
                                     "re-reads /repo/src on every run; cvc5 and z3-4.8 as fallback back ends"),
                 dict(name="bounded", path="bounded/", serves_properties=sorted(CHECKS),
                      kind_free_text="bounded contract checking of the real functions against independent spec functions "
                                     "(stand-in where the prover cannot reach; labelled bounded, never counted as proved)")],
        checks=checks, not_applicable=na,
        notes="See DESIGN.md. Exit codes: 0 held, 1 violation, 2 undecided, 3 checker failure.")
    with open(os.path.join(ROOT, "MANIFEST.json"), "w") as fh:
        json.dump(man, fh, indent=1)
    print("MANIFEST.json:", len(checks), "checks,", len(na), "not_applicable")

if __name__ == "__main__":
    main()
