#!/bin/bash
# usage: seed_run.sh <seed-dir with patch.diff> <name> <pid> [<pid> ...]
# Runs the quick checks of the given properties against a scratch worktree of /repo with the patch applied,
# from a scratch copy of the committed /verif (so /repo and /verif/evidence are not touched).
set -u
SD=$(readlink -f "$1"); NAME=$2; shift 2
BASE=/tmp/seedrun/$NAME
rm -rf "$BASE"; mkdir -p "$BASE"
ok=0
for try in 1 2 3 4 5 6; do
  if git -C /repo worktree add --detach "$BASE/repo" HEAD >/dev/null 2>&1; then ok=1; break; fi
  git -C /repo worktree prune >/dev/null 2>&1; rm -rf "$BASE/repo"; sleep 7
done
[ $ok = 1 ] || { mkdir -p /tmp/seedrun/results/$NAME; echo "worktree add failed" > /tmp/seedrun/results/$NAME/out_ERROR.txt; exit 3; }
( cd "$BASE/repo" && git apply "$SD/patch.diff" ) || { echo "patch failed" > "$BASE/FAILED"; }
mkdir -p "$BASE/verif"
git -C /verif archive HEAD | tar -x -C "$BASE/verif"      # committed state of /verif (not a half-edited working tree)
rm -rf "$BASE/verif/evidence" "$BASE/verif/replays"; mkdir -p "$BASE/verif/evidence" "$BASE/verif/replays"
cd "$BASE/verif"
for pid in "$@"; do
  PYTHONPATH="$BASE/repo/src" PYVC_REPO_SRC="$BASE/repo/src" VERIF_SEED=${VERIF_SEED:-1} timeout 5400 ./check "$pid" --tier ${SEED_TIER:-quick} > "$BASE/out_$pid.txt" 2>&1
  echo "exit=$?" >> "$BASE/out_$pid.txt"
done
cd /; git -C /repo worktree remove --force "$BASE/repo" >/dev/null 2>&1
mkdir -p /tmp/seedrun/results/$NAME; cp "$BASE"/out_*.txt /tmp/seedrun/results/$NAME/ 2>/dev/null
cp -r "$BASE/verif/replays" /tmp/seedrun/results/$NAME/replays 2>/dev/null
rm -rf "$BASE"
