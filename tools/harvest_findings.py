#!/usr/bin/env python3
"""prints candidate `finding:` lines for the violations recorded in evidence/<id>.json (for manual review)"""
import json, sys, os
ROOT = os.path.dirname(os.path.dirname(os.path.abspath(__file__)))
for pid in sys.argv[1:]:
    ev = json.load(open(os.path.join(ROOT, "evidence", f"{pid}.json")))
    for v in ev["coverage"].get("violations_detail", []):
        what = v["what"].replace("\n", " ")
        print(f"finding: property={pid} signature={v['signature']} {what[:300]}")
